"""C15 - credential cache files of every format version parse to what was written.

The independent writer CCacheFormat.tla renders seeded cache models (versions 1-4) into file images; the harness lets
gokrb5 parse them, asks the look-up functions and builds a client from the cache; TraceC15.tla re-derives from the
model what a conforming reader may report and names the parts of a line that contradict it."""
import os, shutil, json, random, re, sys, subprocess
import vlib

NATIVE_LITTLE = sys.byteorder == "little"
CONF_REALM = b"X-CACHECONF:"
CONF_NAME = b"krb5_ccache_conf_data"
ASCII = b"abcdefghijklmnopqrstuvwxyzABCDEFGHIJKLMNOPQRSTUVWXYZ0123456789.-_"
TIMES = [0, 1, 1500000000, 0x7fffffff, 0x80000000, 0xffffffff, 0x5967ad08]
NTS = [0, 1, 2, 3, 10, 0x7fffffff, 0xffffff80, 0xffffffff]
KTS = [0, 1, 3, 16, 17, 18, 19, 20, 23, 24, 0x7fff, 0x8000, 0xff7b, 0xffff]
T16 = [0, 1, 2, 3, 12, 24, 128, 256, 0x7fff, 0x8000, 0xffff]
FLAGS = [0, 0x40e10000, 0x00400000, 0x50800000, 0x80000000, 0x00000001, 0xffffffff, 0x40c10000]


def be32(u):
    return [(u >> 24) & 255, (u >> 16) & 255, (u >> 8) & 255, u & 255]


def rbytes(rnd, n):
    return bytes(rnd.getrandbits(8) for _ in range(n))


def rascii(rnd, n):
    return bytes(rnd.choice(ASCII) for _ in range(n))


def rname(rnd, printable):
    """the bytes of a realm or a component"""
    if printable:
        return rascii(rnd, rnd.choice([1, 2, 4, 8, 12, 20]))
    k = rnd.random()
    if k < 0.15:
        return b""
    if k < 0.6:
        return rascii(rnd, rnd.choice([1, 3, 7, 11, 30]))
    return rbytes(rnd, rnd.choice([1, 2, 5, 16, 40, 130]))


def rprinc(rnd, ncomps=None, printable=False):
    n = rnd.choice([0, 1, 1, 2, 2, 3]) if ncomps is None else ncomps
    return {"nt": be32(rnd.choice(NTS + [rnd.getrandbits(32)])), "realm": rname(rnd, printable).hex(), "comps": [rname(rnd, printable).hex() for _ in range(n)]}


RAW0 = {"kind": "raw", "raw": "", "realm": "", "nt": 0, "comps": [], "etype": 0, "kvno": -1, "cipher": ""}


def raw_ticket(b):
    return dict(RAW0, raw=b.hex())


def der_ticket(rnd, realm_hex, comps_hex):
    return {"kind": "der", "raw": "", "realm": realm_hex, "nt": rnd.choice([0, 1, 2, 3, 10, -128, 127, 128, 65536]), "comps": list(comps_hex),
            "etype": rnd.choice([17, 18, 23, 0, 1, 127, 128, 255, 256, 65535, -133, -129, -32769, 0x7fffffff]),
            "kvno": rnd.choice([-1, 0, 1, 2, 127, 128, 255, 256, 65536, 0x7fffffff]),
            "cipher": rbytes(rnd, rnd.choice([0, 1, 16, 60, 100, 127, 128, 200, 255, 256, 300])).hex()}


def rtyped(rnd):
    return [{"t": rnd.choice(T16), "d": rbytes(rnd, rnd.choice([0, 1, 4, 16, 20])).hex()} for _ in range(rnd.choice([0, 0, 1, 2, 3]))]


def rcred(rnd, default, server=None, ticket=None):
    server = server or rprinc(rnd)
    if ticket is None:
        ticket = raw_ticket(rbytes(rnd, rnd.choice([0, 1, 5, 50, 129, 300])))
    return {"client": default if rnd.random() < 0.7 else rprinc(rnd), "server": server,
            "ktype": rnd.choice(KTS), "key": rbytes(rnd, rnd.choice([0, 1, 8, 16, 24, 32, 64, rnd.randrange(65)])).hex(),
            "auth": be32(rnd.choice(TIMES + [rnd.getrandbits(32)])), "start": be32(rnd.choice(TIMES + [rnd.getrandbits(32)])),
            "end": be32(rnd.choice(TIMES + [rnd.getrandbits(32)])), "renew": be32(rnd.choice(TIMES + [rnd.getrandbits(32)])),
            "skey": rnd.choice([0, 0, 1]), "flags": be32(rnd.choice(FLAGS + [rnd.getrandbits(32)])),
            "addrs": rtyped(rnd), "ad": rtyped(rnd), "ticket": ticket,
            "ticket2": rbytes(rnd, rnd.choice([0, 0, 0, 1, 40])).hex()}


def conf_cred(rnd, default, realm=CONF_REALM, name=CONF_NAME):
    """a configuration entry as MIT writes it: value in the ticket field, everything else zero"""
    comps = [name.hex(), rnd.choice([b"fast_avail", b"pa_type", b"proxy_impersonator", b"refresh_time"]).hex()]
    if rnd.random() < 0.6:
        comps.append(rascii(rnd, 12).hex())
    z = be32(0)
    return {"client": default, "server": {"nt": be32(0), "realm": realm.hex(), "comps": comps}, "ktype": 0, "key": "",
            "auth": z, "start": z, "end": z, "renew": z, "skey": 0, "flags": z, "addrs": [], "ad": [],
            "ticket": raw_ticket(rnd.choice([b"yes", b"2", b"", rbytes(rnd, 9)])), "ticket2": ""}


KNOWN_FIELD = lambda rnd: {"tag": 1, "value": rbytes(rnd, 8).hex()}


def rheader(rnd, version, kind):
    if version != 4:
        return []
    if kind == "known":
        return [KNOWN_FIELD(rnd) for _ in range(rnd.choice([0, 1, 1, 2]))]
    # fields a reader does not know: to be skipped by their length
    fs = []
    for _ in range(rnd.choice([1, 1, 2])):
        fs.append(rnd.choice([KNOWN_FIELD(rnd), {"tag": rnd.choice([0, 2, 3, 255, 256, 0xffff]), "value": rbytes(rnd, rnd.choice([0, 1, 4, 8, 12])).hex()}]))
    if all(f["tag"] == 1 for f in fs):
        fs[rnd.randrange(len(fs))] = {"tag": 2, "value": rbytes(rnd, rnd.choice([0, 3, 8])).hex()}
    return fs


def model(cls, version, header, princ, creds):
    return {"class": cls, "version": version, "le": NATIVE_LITTLE, "header": header, "princ": princ, "creds": creds}


def client_model(rnd, version, variant):
    """caches as kinit and the library leave them: a TGT, service tickets with DER tickets, configuration entries"""
    realm = rascii(rnd, rnd.choice([4, 7, 11])).upper()
    default = {"nt": be32(1), "realm": realm.hex(), "comps": [rascii(rnd, 6).hex() for _ in range(rnd.choice([1, 1, 2]))]}

    def tkt_cred(comps, trealm=None):
        srv = {"nt": be32(rnd.choice([1, 2, 3])), "realm": (trealm or realm).hex(), "comps": [c.hex() for c in comps]}
        return rcred(rnd, default, server=srv, ticket=der_ticket(rnd, srv["realm"], srv["comps"]))
    tgt = tkt_cred([b"krbtgt", realm])
    svcs = [tkt_cred([rnd.choice([b"HTTP", b"host", b"cifs"]), rascii(rnd, 10) + b".test"][:rnd.choice([1, 2, 2, 2])] + ([b"extra"] if rnd.random() < 0.1 else []))
            for _ in range(rnd.choice([0, 1, 2, 3]))]
    confs = [conf_cred(rnd, default) for _ in range(rnd.choice([0, 1, 2]))]
    creds = [tgt] + svcs
    if variant == "no-tgt":
        creds = svcs
    elif variant == "cross-tgt":
        creds = [tkt_cred([b"krbtgt", b"OTHER." + realm])] + svcs
    elif variant == "dup-spn" and svcs:
        d = json.loads(json.dumps(svcs[0]))
        d["key"] = rbytes(rnd, 32).hex()
        d["end"] = be32(rnd.getrandbits(31))
        if rnd.random() < 0.7:                              # a re-issued ticket: other bytes under the same name
            d["ticket"] = der_ticket(rnd, d["server"]["realm"], d["server"]["comps"])
        creds.append(d)
        if rnd.random() < 0.5:
            t2 = json.loads(json.dumps(tgt))
            t2["key"] = rbytes(rnd, 16).hex()
            t2["auth"] = be32(rnd.getrandbits(31))
            creds.append(t2)
    elif variant == "dup-tgt":
        # a renewed TGT appended after the old one: every field differs, so each (ticket, key, times) triple is recognisable
        for _ in range(rnd.choice([1, 1, 2])):
            t2 = tkt_cred([b"krbtgt", realm])
            creds.insert(rnd.randrange(len(creds) + 1), t2)
    elif variant == "opaque" and svcs:
        svcs[-1]["ticket"] = raw_ticket(rbytes(rnd, 40))
    elif variant == "cross":
        creds.append(tkt_cred([b"krbtgt", b"OTHER." + realm]))
        creds.append(tkt_cred([b"HTTP", b"far.example"], trealm=b"OTHER." + realm))
    for c in confs:
        creds.insert(rnd.randrange(len(creds) + 1), c)
    if variant == "tgt-last" and len(creds) > 1:
        creds.remove(tgt)
        creds.append(tgt)
    return model("client-" + variant, version, rheader(rnd, version, "known"), default, creds[:8])


def gen_models(rnd, scale):
    ms = []
    for rep in range(scale):
        for version in (1, 2, 3, 4):
            for ncreds in range(7):
                default = rprinc(rnd)
                ms.append(model("sweep", version, rheader(rnd, version, "known"), default, [rcred(rnd, default) for _ in range(ncreds)]))
    for rep in range(4 * scale):
        default = rprinc(rnd)
        ms.append(model("header-unknown-tag", 4, rheader(rnd, 4, "unknown"), default, [rcred(rnd, default) for _ in range(rnd.choice([0, 1, 2, 3]))]))
    for rep in range(2 * scale):
        for version in (1, 2, 3, 4):
            # configuration entries among ordinary ones
            default = rprinc(rnd, printable=True)
            creds = [rcred(rnd, default) if rnd.random() < 0.5 else conf_cred(rnd, default) for _ in range(rnd.choice([1, 2, 3, 4, 5, 6]))]
            ms.append(model("config", version, rheader(rnd, version, "known"), default, creds))
            # near misses: a realm that only starts like the configuration realm is an ordinary realm; the configuration realm
            # under another name is left open by the format
            default = rprinc(rnd, printable=True)
            near = rnd.choice([b"X-CACHECONF", b"X-CACHECONF:X", b"X-CACHECONFIG.EXAMPLE", b"x-cacheconf:", b"X-CACHECON"])
            creds = [rcred(rnd, default), conf_cred(rnd, default, realm=near), conf_cred(rnd, default), conf_cred(rnd, default, name=b"other_name")]
            rnd.shuffle(creds)
            ms.append(model("config-near-miss", version, rheader(rnd, version, "known"), default, creds))
            # several credentials for the same server
            default = rprinc(rnd, printable=True)
            srv = rprinc(rnd, rnd.choice([1, 2, 3]))
            creds = [rcred(rnd, default, server=rnd.choice([srv, dict(srv, realm=rname(rnd, True).hex()), rprinc(rnd)])) for _ in range(rnd.choice([2, 3, 4, 6]))]
            ms.append(model("same-server", version, rheader(rnd, version, "known"), default, creds))
    variants = ["plain", "plain", "tgt-last", "no-tgt", "cross-tgt", "dup-spn", "dup-tgt", "opaque", "cross"]
    for rep in range(2 * scale):
        for version in (1, 2, 3, 4):
            for v in variants:
                ms.append(client_model(rnd, version, v))
    return ms


# --------------------------------------------------------------------------- the specification against the JDK's reader

JDK_EXPORTS = ["--add-exports", "java.security.jgss/sun.security.krb5.internal.ccache=ALL-UNNAMED",
               "--add-exports", "java.security.jgss/sun.security.krb5=ALL-UNNAMED",
               "--add-exports", "java.security.jgss/sun.security.krb5.internal=ALL-UNNAMED"]


def s32(b4):
    u = (b4[0] << 24) | (b4[1] << 16) | (b4[2] << 8) | b4[3]
    return u - (1 << 32) if u >= 1 << 31 else u


def jdk_models(rnd, n):
    """kinit-shaped caches restricted to what the JDK's reader loads: the credentials of the default principal, IPv4/IPv6
    addresses of the right length, no second ticket, configuration entries with a value and a principal-shaped third component"""
    ms = []
    variants = ["plain", "tgt-last", "no-tgt", "cross", "dup-spn"]
    for k in range(n):
        m = client_model(rnd, 1 + k % 4, variants[k % len(variants)])
        m["class"] = "jdk-" + m["class"]
        for c in m["creds"]:
            c["client"] = m["princ"]
            c["addrs"] = [rnd.choice([{"t": 2, "d": rbytes(rnd, 4).hex()}, {"t": 24, "d": rbytes(rnd, 16).hex()}]) for _ in range(rnd.choice([0, 1, 2, 3]))]
            c["ticket2"] = ""
            if bytes.fromhex(c["server"]["realm"]) == CONF_REALM:
                if len(c["server"]["comps"]) > 2:
                    c["server"]["comps"][2] = b"krbtgt/EXAMPLE.COM@EXAMPLE.COM".hex()
                if c["ticket"]["raw"] == "":
                    c["ticket"]["raw"] = b"yes".hex()
        ms.append(m)
    return ms


def jdk_crosscheck(run, wd, rnd, n):
    """CCacheFormat.Render against an independent reader: the credential cache code of the installed JDK
    (sun.security.krb5.internal.ccache) must read back from the rendered images what the models say - default principal,
    number of credentials and configuration entries, names, key type and bytes, the four times, the flags it knows (as a
    32-bit integer in the byte order of the file) and the ticket.  Validates the writer for versions 1-3, for which the
    repository has no sample file.  Skipped (and recorded as such) where the JDK internals cannot be reached."""
    src = os.path.join(vlib.SPEC, "c15", "JdkCCacheReader.java")
    os.makedirs(vlib.BUILD, exist_ok=True)
    cls = os.path.join(vlib.BUILD, "JdkCCacheReader.class")
    if not os.path.exists(cls) or os.path.getmtime(cls) < os.path.getmtime(src):
        r = subprocess.run(["javac", "-nowarn", "-d", vlib.BUILD] + JDK_EXPORTS + [src], capture_output=True, text=True)
        if r.returncode != 0:
            return "unavailable (javac: %s)" % r.stderr.strip().splitlines()[-1:]
    models = jdk_models(rnd, n)
    images = render(wd, models, (), ())
    files = []
    for i, im in enumerate(images):
        files.append(os.path.join(wd, "jdk_%d.bin" % i))
        open(files[-1], "wb").write(bytes.fromhex(im["image"]))
    try:
        r = subprocess.run(["java"] + JDK_EXPORTS + ["-cp", vlib.BUILD, "JdkCCacheReader"] + files, capture_output=True, text=True, timeout=600)
    except subprocess.TimeoutExpired:
        return "unavailable (timeout)"
    outs = [l for l in r.stdout.splitlines() if l.startswith("jdk_")]
    if r.returncode != 0 or len(outs) != len(models):
        return "unavailable (java rc=%d)" % r.returncode

    def pstr(p):
        return "/".join(bytes.fromhex(c).decode() for c in p["comps"]) + "@" + bytes.fromhex(p["realm"]).decode()
    agree = {}
    for i, line in enumerate(outs):
        m, f, problems = models[i], line.split("|"), []
        ordinary = [c for c in m["creds"] if bytes.fromhex(c["server"]["realm"]) != CONF_REALM]
        if len(f) < 5:
            problems.append(line[:300])
        else:
            if f[1] != pstr(m["princ"]) or int(f[2]) != len(ordinary) or int(f[4]) != len(m["creds"]) - len(ordinary):
                problems.append("principal/counts: " + "|".join(f[1:3] + f[4:5]))
            for c, o in zip(ordinary, [x for x in f[3].split(";") if x]):
                g = o.split(",")
                fl = s32(c["flags"]) & 0xffffffff
                known = "".join("1" if (fl >> (31 - j)) & 1 and 1 <= j <= 11 else "0" for j in range(32))    # the JDK decodes flags 1..11
                exp = [pstr(c["client"]), pstr(c["server"]), None, c["key"], str(s32(c["auth"])), str(s32(c["start"])), str(s32(c["end"])),
                       str(s32(c["renew"])), known, None]
                problems += ["field %d: read %s, written %s" % (k, b[:60], a[:60]) for k, (a, b) in enumerate(zip(exp, g)) if a is not None and a != b]
                if int(g[2]) % 65536 != c["ktype"]:
                    problems.append("key type: read %s, written %d" % (g[2], c["ktype"]))
                if g[9] not in images[i]["image"]:
                    problems.append("the ticket the JDK re-encodes is not in the image")
        if problems:
            raise vlib.Inconclusive("CCacheFormat.Render disagrees with the JDK's credential cache reader on a version %d image: %s\nmodel: %s"
                                    % (m["version"], problems[:3], json.dumps(m)[:1500]))
        agree["v%d" % m["version"]] = agree.get("v%d" % m["version"], 0) + 1
    return {"images_read_back_equal": agree}


def load_sample():
    return json.load(open(os.path.join(vlib.SPEC, "c15", "mit_sample_v4.json")))


def describe(m, part):
    """descriptive facts of a model (no verdict), as far as they concern the rejected part: used to tell findings apart"""
    d = {"version": m["version"]}
    if m["version"] in (1, 2):
        d["native_little"] = bool(m["le"])
    if part in ("parse_error", "parse_panic"):
        d["unknown_header_tag"] = any(f["tag"] != 1 for f in m["header"])
    if part in ("getentries", "getentries_panic", "client_cache", "client_error", "client_panic"):
        realms = [bytes.fromhex(c["server"]["realm"]) for c in m["creds"]]
        d["realm_starting_like_conf_realm"] = any(r.startswith(b"X-CACHECONF") and r != CONF_REALM for r in realms)
    return d


def render(wd, models, counts, keylens, timeout=600):
    """role B: GenC15 renders the given models, plus every combination of counts it enumerates itself"""
    vlib.write_ndjson(os.path.join(wd, "models.ndjson"), models)
    fmt = lambda xs: "{" + ", ".join(str(x) for x in xs) + "}"
    open(os.path.join(wd, "GenC15.cfg"), "w").write("CONSTANT NativeLittle = %s\nCONSTANT Counts = %s\nCONSTANT KeyLens = %s\nINIT Init\nNEXT Next\n"
                                                    % ("TRUE" if NATIVE_LITTLE else "FALSE", fmt(counts), fmt(keylens)))
    g = vlib.tlc_or_die(wd, "GenC15", workers=1, timeout=timeout, xmx="12g")
    if g.tags("ILLFORMED"):
        raise vlib.Inconclusive("models outside the format: " + ", ".join(g.tags("ILLFORMED")[:5]))
    images = vlib.read_ndjson(os.path.join(wd, "images.ndjson"))
    want = len(models) + (4 * len(counts) ** 4 * len(keylens) if counts else 0)
    if len(images) != want:
        raise vlib.Inconclusive("GenC15 rendered %d images, expected %d" % (len(images), want))
    return images


def validate(run, wd, models, timeout, counts=(), keylens=()):
    """render, run gokrb5, validate; returns (images, lines, {line number: set of (part, index)})"""
    images = render(wd, models, counts, keylens, timeout)
    trace = os.path.join(wd, "trace.ndjson")
    vlib.run_harness(["c15", "-out", trace, "-images", os.path.join(wd, "images.ndjson")], timeout=timeout)
    lines = vlib.read_ndjson(trace)
    if len(lines) != len(images):
        raise vlib.Inconclusive("harness reported %d lines for %d images" % (len(lines), len(images)))
    res = vlib.tlc_or_die(wd, "TraceC15", timeout=timeout, xmx="12g")
    # one state per line + the initial state
    expect = len(lines) + 1
    if res.distinct != expect:
        raise vlib.Inconclusive("TraceC15: TLC visited %d states, expected %d (lines skipped?)\n%s" % (res.distinct, expect, res.out[-2000:]))
    run.add_model(res)
    bad = {int(v) for v in res.tags("BADLINE")}
    parts = {}
    for v in res.tags("BADPART"):
        mm = re.match(r'^(\d+), "([a-z_]+)", (\d+)$', v)
        if not mm:
            raise vlib.Inconclusive("unreadable BADPART line: " + v)
        parts.setdefault(int(mm.group(1)), set()).add((mm.group(2), int(mm.group(3))))
    if set(parts) != bad:
        raise vlib.Inconclusive("BADLINE and BADPART output disagree: %s vs %s" % (sorted(bad)[:10], sorted(parts)[:10]))
    run.cov["traces_validated_against_impl"] += len(lines) - len(bad)
    if len(lines) >= 100:
        from cryptocommon import binding_selftest
        binding_selftest(run, wd, "TraceC15", trace, timeout, exclude=bad)
    return images, lines, parts


def report(run, lines, parts):
    for ln in sorted(parts):
        x = lines[ln - 1]
        names = sorted({p for p, _ in parts[ln]})
        if "notrendered" in names:
            raise vlib.Inconclusive("line %d: the harness did not parse the image the specification rendered" % ln)
        for p in names:
            facts = dict(describe(x["model"], p), part=p)
            if p in ("parse_error", "client_error"):
                # the library's own message up to the wrapped cause (a small set of texts)
                facts["error"] = (x["errmsg"] if p == "parse_error" else x["client"]["errmsg"]).split(":")[0][:80]
            idx = sorted(i for q, i in parts[ln] if q == p)
            run.violation(facts, {"model": x["model"], "image": x["image"], "part": p, "at": idx, "line": {k: v for k, v in x.items() if k not in ("model", "image")}})


def main(tier, only_models=None):
    run = vlib.Run("C15", "exploration", tier)
    vlib.build_harness()
    wd = vlib.spec_scratch(["c15", "crypto"])
    try:
        sample = load_sample()
        if only_models is None:
            rnd = random.Random(run.seed)
            models = [sample["model"]] + gen_models(rnd, 8 if not run.thorough else 150)
        else:
            models = [sample["model"]] + only_models
        if only_models is None:
            run.extra["spec_vs_jdk_reader"] = jdk_crosscheck(run, wd, random.Random(run.seed + 1000), 80 if not run.thorough else 800)
        counts, keylens = ((), ()) if only_models is not None else ((0, 1, 3), (0, 64)) if not run.thorough else ((0, 1, 2, 3), (0, 1, 16, 64))
        images, lines, parts = validate(run, wd, models, 600 if not run.thorough else 3000, counts, keylens)
        # ---- the specification's writer against MIT Kerberos' credential-cache reader (validates CCacheFormat, not gokrb5)
        import mitcross
        mc = mitcross.spec_stage(run, mitcross.mit_ccache_cross, wd, models, images[:len(models)], 600 if not run.thorough else 6000)
        run.extra["spec_vs_mit_reader"] = {k: v for k, v in mc.items() if k != "first"}
        if mc.get("disagreements"):
            vlib.spec_validation_problem(run, "CCacheFormat and MIT's credential-cache reader disagree on %d files: %s" % (mc["disagreements"], mc["first"]))
        # the specification itself against independent data: it must reproduce the cache file MIT kinit wrote
        if images[0]["image"] != sample["image"]:
            raise vlib.Inconclusive("CCacheFormat.Render does not reproduce the MIT sample cache of the repository's test vectors")
        report(run, lines, parts)
        nl = sum(len(x["lookups"]) for x in lines)
        built = [x for x in lines if x["client"]["called"] and not x["client"]["err"] and not x["client"]["panic"]]
        if only_models is None and not run.violations:
            # vacuity guards: every part of the property must actually have been exercised
            empty = [k for k, v in (("clients built", len(built)), ("look-ups that found a credential", sum(1 for x in lines for k in x["lookups"] if k["found"])),
                                    ("client cache entries", sum(len(x["client"]["cache"]) for x in built)),
                                    ("listings that hide a configuration entry", sum(1 for x in lines if len(x["entries"]) < len(x["creds"])))) if v == 0]
            empty += ["images of version %d" % v for v in (1, 2, 3, 4) if not any(x["model"]["version"] == v and x["creds"] for x in lines)]
            if empty:
                raise vlib.Inconclusive("nothing observed for: " + ", ".join(empty))
        run.cov["evaluations"] = len(lines) + 2 * nl + len(lines) + sum(1 for x in lines if x["client"]["called"])
        run.cov["distinct_nontrivial"] = len({x["image"] for x in lines if len(x["model"]["creds"]) > 0}) \
            + len({(x["image"], json.dumps(k["q"])) for x in lines for k in x["lookups"]}) \
            + len({x["image"] for x in built})
        run.cov["rule"] = ("seeded cache models rendered by CCacheFormat.tla: versions 1-4 x 0..6 credentials (0..3 components, names of 0..130 arbitrary bytes, "
                           "name/key/address/authdata types over their whole width, key lengths 0..64, times over the 32-bit range, 0..3 addresses and "
                           "authdata entries, opaque and DER tickets, second tickets), v4 headers with 0..2 known and unknown fields, configuration entries "
                           "and near misses of the configuration realm, several credentials per server, and kinit-shaped caches (TGT first/last/absent/"
                           "cross-realm only, duplicate names, an opaque ticket) for NewFromCCache; the MIT sample cache of the test vectors; and, enumerated by TLC, "
                           "every combination of counts (default components x server components x addresses x authdata over %s, key length over %s) "
                           "x versions 1-4 in a two-credential file. "
                           "evaluations = images parsed + Contains and GetEntry calls + GetEntries calls + NewFromCCache calls; distinct = distinct "
                           "images with credentials + distinct (image, query) pairs + distinct images a client was built from") % (list(counts), list(keylens))
        by = {}
        for x in lines:
            by.setdefault("v%d" % x["model"]["version"], 0)
            by["v%d" % x["model"]["version"]] += 1
        run.extra.update({"images": len(lines), "images_by_version": by, "credentials_parsed": sum(len(x["creds"]) for x in lines),
                          "lookups": nl, "lookups_found": sum(1 for x in lines for k in x["lookups"] if k["found"]),
                          "clients_built": len(built), "client_cache_entries": sum(len(x["client"]["cache"]) for x in built),
                          "classes": sorted({x["model"]["class"] for x in lines}), "rejected_lines": len(parts),
                          "spec_reproduces_mit_sample": True, "native_byte_order": sys.byteorder})
        for x in (lines[0], lines[min(40, len(lines) - 1)]):
            run.sample({"class": x["model"]["class"], "version": x["model"]["version"], "image_bytes": len(x["image"]) // 2, "credentials": len(x["creds"]),
                        "lookups": len(x["lookups"]), "entries": x["entries"], "client_err": x["client"]["errmsg"], "client_cache": [e["mapkey"] for e in x["client"]["cache"]]})
        run.assumptions += ["version 1 and 2 files are rendered in the byte order of this host (%s endian); the other order cannot be read by definition" % sys.byteorder,
                            "16-bit types may be reported signed or unsigned, 32-bit times are signed seconds (as the property quantifies), the name type of version 1 principals is free",
                            "which of several credentials for one server GetEntry / the client cache keeps is unspecified (any of them is accepted)",
                            "NewFromCCache is constrained only for caches with a TGT for the default realm whose listed credentials carry DER tickets named like their server principal",
                            "the header of a version 4 file is not observable through the API; only its effect on everything after it is checked",
                            "the client's sessions and ticket cache are read through reflection (unexported fields)"]
    finally:
        shutil.rmtree(wd, ignore_errors=True)
    run.finish(exhaustive=False)


def replay(rep):
    """re-run the single model of a recorded violation through the whole pipeline"""
    main(rep.get("tier", "quick"), only_models=[rep["detail"]["model"]])
