"""C18 - the SPNEGO HTTP client authenticates once, replays the body, and terminates."""
import os, shutil, json
import vlib
from cryptocommon import line_trace


def main(tier):
    run = vlib.Run("C18", "model_checking", tier)
    vlib.build_harness()
    wd = vlib.spec_scratch(["c18", "crypto"])
    try:
        res = vlib.tlc(wd, "SPNEGOClient", cfg="MCClient.cfg", timeout=900)
        if res.violation or res.rc != 0 or not res.finished:
            raise vlib.Inconclusive("SPNEGOClient model fails its own properties:\n" + res.out[-3000:])
        run.add_model(res)
        g = vlib.tlc_or_die(wd, "GenC18", cfg="GenC18.cfg" if not run.thorough else "GenC18T.cfg", workers=1, timeout=900)
        run.extra["scripts"] = (g.tags("COUNTS") or ["?"])[0]
        trace = os.path.join(wd, "trace.ndjson")
        import mitcross
        mexe = mitcross.build_mitref()
        margs = ["-mitref", mexe, "-mitdir", wd] if mexe else []
        vlib.run_harness(["c18", "-seed", str(run.seed), "-tier", run.tier, "-out", trace, "-scripts", os.path.join(wd, "scripts.ndjson")] + margs, timeout=3400)
        lines = vlib.read_ndjson(trace)
        run.cov["evaluations"] = sum(len(x["reqs"]) for x in lines)
        toks = [q for x in lines for q in x["reqs"] if q["auth"]]
        run.extra["independent_acceptor"] = {"implementation": "MIT Kerberos gss_accept_sec_context (SPNEGO), keytab with the keys of both hosts" if mexe else "not available",
                                             "tokens_judged": sum(1 for q in toks if q["mit"]), "accepted": sum(1 for q in toks if q["mit"] == "accepted"),
                                             "also_judged_by_gokrb5_acceptor": len(toks)}
        if mexe and toks and not any(q["mit"] for q in toks):
            vlib.spec_validation_problem(run, "MIT's acceptor judged no token at all")
        bad = line_trace(run, wd, "TraceC18", len(lines), timeout=3000)
        authed = sum(1 for x in lines for q in x["reqs"] if q["auth"] and q["accepted"])
        run.extra["calls"] = len(lines)
        run.extra["authenticated_requests_accepted"] = authed
        run.extra["max_requests_in_a_call"] = max(len(x["reqs"]) for x in lines)
        if not bad and authed == 0:
            raise vlib.Inconclusive("vacuous: no authenticated retry was accepted by the acceptor")
        run.cov["distinct_nontrivial"] = len({json.dumps([x["script"], x["tail"], x["method"], x["bodyLen"], x["spnMode"], x["et"]]) for x in lines if "bare" in x["script"] or x["tail"] == "bare" or "rs" in x["script"] or "ro" in x["script"]})
        run.cov["rule"] = ("every server script of length <= 3 (thorough 5) over {200, 401 bare Negotiate, 401 Negotiate+reject token, 401 other scheme, "
                           "redirect same host, redirect other host, 500} x constant tail in {200, bare challenge, redirect, reject}, enumerated by TLC; "
                           "crossed (rotating) with GET/HEAD/POST, body sizes 0/1/4 KiB/70 kB (1 MiB in thorough), explicit and URL-derived SPN, etypes "
                           "(quick 18, 23; thorough all six). evaluations = HTTP requests received; distinct = calls whose script challenges or redirects")
        for x in (lines[3], lines[len(lines) // 2]):
            run.sample({k: v for k, v in x.items() if k != "seq"})
        for i in bad:
            x = lines[i - 1]
            facts = {"tail": x["tail"], "capped": x["capped"], "result": x["result"], "n": min(len(x["reqs"]), 25), "method": x["method"],
                     "bodyOK": all(q["bodyOK"] for q in x["reqs"]), "panic": bool(x["panic"])}
            run.violation(facts, {"line": x})
        run.extra["rejected_lines"] = len(bad)
        run.assumptions += ["the scripted server always drains the request body before answering",
                            "the token of the retried request is judged by an independent acceptor (MIT's gss_accept_sec_context) and by gokrb5's own acceptor",
                            "redirects use status 307 so that method and body are preserved"]
    finally:
        shutil.rmtree(wd, ignore_errors=True)
    run.finish(exhaustive=True)


def replay(rep):
    main(rep.get("tier", "quick"))
