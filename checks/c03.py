"""C03 - the SPNEGO HTTP wrapper serves the inner handler only to authenticated requests."""
import os, shutil, json
import vlib
from cryptocommon import line_trace
from c11 import parse_races


def main(tier):
    run = vlib.Run("C03", "model_checking", tier)
    vlib.build_harness()
    vlib.build_harness(race=True)
    wd = vlib.spec_scratch(["c01", "c03", "crypto"])
    try:
        res = vlib.tlc(wd, "MCAcceptor", timeout=900)
        if res.violation or res.rc != 0 or not res.finished:
            raise vlib.Inconclusive("SPNEGOAcceptor model fails its own invariants:\n" + res.out[-3000:])
        run.add_model(res)
        vlib.tlc_or_die(wd, "GenC01", cfg="GenC01.cfg", workers=1, timeout=300)
        trace = os.path.join(wd, "trace.ndjson")
        vlib.run_harness(["c03", "-seed", str(run.seed), "-tier", run.tier, "-out", trace, "-cases", os.path.join(wd, "cases.ndjson")], timeout=3400)
        lines = vlib.read_ndjson(trace)
        # ---- concurrent rounds against one handler instance (race-instrumented build); same line format, plus race reports
        ctrace = os.path.join(wd, "conc.ndjson")
        racelog = os.path.join(wd, "race-c03")
        vlib.run_harness(["c03conc", "-seed", str(run.seed), "-rounds", "120" if run.thorough else "25", "-out", ctrace, "-cases", os.path.join(wd, "cases.ndjson")],
                         timeout=3400, race=True, env={"GORACE": "halt_on_error=0 history_size=5 log_path=%s" % racelog}, ok_codes=(0, 66))
        clines = vlib.read_ndjson(ctrace)
        racetext = "".join(open(os.path.join(wd, f), errors="replace").read() for f in sorted(os.listdir(wd)) if f.startswith("race-c03."))
        races = parse_races(racetext)
        run.extra["concurrent_phase"] = {"requests": len(clines), "served": sum(1 for x in clines if x["reqs"][0]["obs"]["outcome"] == "served"),
                                         "refused": sum(1 for x in clines if x["reqs"][0]["obs"]["outcome"] == "refused"),
                                         "race_reports": len(races)}
        lines += clines
        lines += [{"ev": "race", "accesses": json.loads(a)} for a in sorted({json.dumps(a) for a in races if not any("(outside gokrb5)" in y for y in a)})]
        vlib.write_ndjson(trace, lines)
        nreal = len(lines)
        lines_req = [x for x in lines if "reqs" in x]
        reqs = [e for x in lines_req for e in x["reqs"]]
        run.cov["evaluations"] = len(reqs) + sum(1 for e in reqs if e["api"]["called"])
        served = sum(1 for e in reqs if e["obs"]["outcome"] == "served")
        refused = sum(1 for e in reqs if e["obs"]["outcome"] == "refused")
        run.extra["outcomes"] = {"served": served, "refused": refused, "error5xx": sum(1 for e in reqs if e["obs"]["outcome"] == "error5xx")}
        bad = line_trace(run, wd, "TraceC03", len(lines), timeout=3400)
        canon = [e for e in reqs if e["q"]["hdr"]["tok"] == "apreq" and e["q"]["hdr"]["class"] in ("negInit", "rawKRB5") and e["q"]["hdr"]["mechs"] in ("krb5", "mskrb5", "krb5_other", "absent")
                 and e["q"]["cookie"] == "none" and not any(True for d in e["q"]["ap"] if False)]
        if not bad and (served == 0 or refused == 0):
            raise vlib.Inconclusive("vacuous: served=%d refused=%d" % (served, refused))
        run.cov["distinct_nontrivial"] = len({json.dumps([e["q"] for e in x["reqs"]], sort_keys=True) + json.dumps(x["settings"], sort_keys=True) + str(x["et"]) for x in lines_req})
        run.cov["rule"] = ("per etype (quick 18,23; thorough all six): every header class (none, other scheme, no token, bad base64, garbage, "
                           "NegTokenInit x 6 mech lists x 5 token kinds, NegTokenResp x 4 supportedMech x 5 kinds, raw KRB5 x 4 kinds); the C01 "
                           "single-defect catalogue under 3 framings x 4 settings; truncations and byte mutations of a valid header (every "
                           "5th position quick, all thorough); all request sequences up to length 3 over a 9-symbol session alphabet. Token "
                           "verification APIs are called on a fresh token of the same abstract request. Concurrent phase: 25 (thorough 120) rounds x 2 etypes of 14-28 simultaneous requests from two client addresses to one handler instance built from an option slice with spare capacity, each request judged on its own, every race-detector report rejected. distinct = distinct (sequence, settings, etype)")
        for x in (lines[1], lines[40], lines[-1]):
            run.sample(x)
        for i in bad:
            x = lines[i - 1]
            if x.get("ev") == "race":
                run.violation({"ev": "race", "accesses": x["accesses"]}, {"line": x})
                continue
            e = next((e for e in x["reqs"] if True), None)
            facts = {"hdrs": [[e["q"]["hdr"]["class"], e["q"]["hdr"]["mechs"], e["q"]["hdr"]["tok"]] for e in x["reqs"]][:3],
                     "outcomes": [e["obs"]["outcome"] for e in x["reqs"]][:3],
                     "api_accept": any(e["api"]["accept"] for e in x["reqs"]), "api_direct": any(any(e["api"]["direct"]) for e in x["reqs"]),
                     "panic": any(e["obs"]["panic"] or e["api"]["acceptPanic"] or e["api"]["directPanic"] for e in x["reqs"])}
            run.violation(facts, {"line": x})
        run.extra["rejected_lines"] = len(bad)
        run.assumptions += ["the statement is one-directional: which framings of a valid AP-REQ are served is only a vacuity guard",
                            "Verify methods are called directly only for tokens without an AP-REQ (settings are unexported; AcceptSecContext is the API that supplies them)",
                            "a byte mutation outside the two ciphertexts leaves the outcome open, but a served identity must be the sealed one"]
        # the library's other way of authenticating an HTTP request: basic authentication checked against the KDC (BasicAuth.tla;
        # a mechanism none of the listed properties names: recorded, never a verdict)
        import sysk5
        run.extra["system_spec_basicauth"] = sysk5.run_basicauth(run)
    finally:
        shutil.rmtree(wd, ignore_errors=True)
    run.finish(exhaustive=run.thorough)


def replay(rep):
    main(rep.get("tier", "quick"))
