"""C12 - a KDC exchange succeeds whenever some configured KDC and transport works."""
import os, shutil, json
import vlib
from cryptocommon import line_trace


def main(tier):
    run = vlib.Run("C12", "fault_enumeration", tier)
    vlib.build_harness()
    wd = vlib.spec_scratch(["c12", "crypto"])
    try:
        res = vlib.tlc(wd, "KDCFailover", cfg="MCFailover.cfg", timeout=1200)
        if res.violation or res.rc != 0 or not res.finished:
            raise vlib.Inconclusive("KDCFailover: machine and closed form disagree or the theorem fails in the model:\n" + res.out[-3000:])
        run.add_model(res)
        files = []
        for n in (["1", "2", "3q"] if not run.thorough else ["1", "2", "3"]):      # 3q: three KDCs over the fast behaviours only
            g = vlib.tlc_or_die(wd, "GenC12", cfg="GenC12_%s.cfg" % n, workers=1, timeout=900)
            f = os.path.join(wd, "cases_%s.ndjson" % n)
            os.rename(os.path.join(wd, "cases.ndjson"), f)
            files.append(f)
        trace = os.path.join(wd, "trace.ndjson")
        args = ["c12", "-seed", str(run.seed), "-out", trace, "-cases", ",".join(files)]
        if run.thorough:
            args += ["-maxsilent", "2", "-silentsample", "2400", "-workers", "240"]
        else:
            args += ["-maxsilent", "1", "-silentsample", "60"]
        vlib.run_harness(args, timeout=3400)
        lines = vlib.read_ndjson(trace)
        run.cov["evaluations"] = len(lines)
        bad = line_trace(run, wd, "TraceC12", len(lines), timeout=3000)
        results = {}
        for x in lines:
            results[x["obs"]["result"]] = results.get(x["obs"]["result"], 0) + 1
        run.extra["results"] = results
        run.extra["with_silent_endpoint"] = sum(1 for x in lines if any(b["udp"] == "silent" or b["tcp"] == "silent" for b in x["beh"]))
        run.extra["second_exchange_of_its_client"] = {k: sum(1 for x in lines if x.get("prelude") == k) for k in sorted({x.get("prelude") or "" for x in lines}) if k}
        run.extra["closes_early_made_concrete_as"] = {k: sum(1 for x in lines for b in x["beh"] if b.get("closeAt") == k) for k in sorted({b.get("closeAt") or "" for x in lines for b in x["beh"]}) if k}
        if not bad and not run.extra["second_exchange_of_its_client"]:
            raise vlib.Inconclusive("vacuous: no case ran as the second exchange of its client")
        if not bad and (results.get("answer", 0) == 0 or results.get("fail", 0) == 0):
            raise vlib.Inconclusive("vacuous: results seen %s" % results)
        run.cov["distinct_nontrivial"] = len({json.dumps([x["beh"], x["limit"]]) for x in lines if any(b["udp"] != "answers" or b["tcp"] != "answers" for b in x["beh"])})
        run.cov["rule"] = ("every assignment of a behaviour to each (KDC, transport) endpoint (UDP: answers/refuses/silent/KRB-ERROR/response-too-big; TCP: "
                           "answers/refuses/closes early/silent/KRB-ERROR/answers in two segments), assignments equal up to a permutation of the KDCs "
                           "collapsed, x {tcp only, udp first, tcp first}: N = 1,2 and N = 3 over the behaviours {answers, refuses, closes early} (thorough: N = 3 over all behaviours); enumerated by TLC. Cases without a silent endpoint are "
                           "all run; cases with silent endpoints (5 s timeouts) all for N = 1 and a seeded sample otherwise. distinct = assignments "
                           "with at least one faulty endpoint. A TCP endpoint that closes early does so at a seeded point (at accept, after reading the request, "
                           "inside the length prefix, after it, inside the body of a correct answer); a seeded third of the cases without silent endpoint is the second "
                           "exchange of its client, after one against the same endpoints behaving otherwise (response-too-big then TCP, KRB-ERROR everywhere, answers everywhere)")
        for x in (lines[0], lines[len(lines) // 2], lines[-1]):
            run.sample({k: v for k, v in x.items() if k != "seq"})
        for i in bad:
            x = lines[i - 1]
            facts = {"beh": x["beh"], "limit": x["limit"], "result": x["obs"]["result"], "panic": bool(x["obs"]["panic"])}
            run.violation(facts, {"line": x})
        run.extra["rejected_lines"] = len(bad)
        run.assumptions += ["the KDC order per transport is random: the observed result must be in the model's set of admissible results",
                            "refused attempts are invisible to the endpoints: the attempt bound is checked on the attempts the endpoints saw",
                            "DNS SRV discovery is not modelled (no resolver offline)"]
    finally:
        shutil.rmtree(wd, ignore_errors=True)
    run.finish(exhaustive=False)


def replay(rep):
    main(rep.get("tier", "quick"))
