"""C01 - the service accepts an AP-REQ exactly when RFC 4120 3.2.3 says it is valid.
Role A: APExchange.tla (decision procedure + presentation machine) model checked; role B: TLC enumerates the nominal
request, all single and all pair deviations and the 96 settings; the harness mints each for the six etypes against an
adversarial keytab and presents it twice to service.VerifyAPREQ; role C: TLC re-derives Accept for every recorded line
from the recorded instants (TraceC01)."""
import os, shutil, json
import vlib
from cryptocommon import line_trace


def main(tier):
    run = vlib.Run("C01", "model_checking", tier)
    vlib.build_harness()
    wd = vlib.spec_scratch(["c01", "crypto"])
    try:
        res = vlib.tlc(wd, "MCAPExchange", timeout=900)
        if res.violation or res.rc != 0 or not res.finished:
            raise vlib.Inconclusive("APExchange model fails its own sanity properties:\n" + res.out[-3000:])
        run.add_model(res)
        g = vlib.tlc_or_die(wd, "GenC01", cfg="GenC01.cfg", workers=1, timeout=300)
        counts = g.tags("COUNTS")
        run.extra["abstract_space"] = "singles, pairs, settings = " + (counts[0] if counts else "?")
        trace = os.path.join(wd, "trace.ndjson")
        mitdir = os.path.join(wd, "mit")
        os.makedirs(mitdir, exist_ok=True)
        vlib.run_harness(["c01", "-seed", str(run.seed), "-tier", run.tier, "-out", trace, "-cases", os.path.join(wd, "cases.ndjson"),
                          "-settings", os.path.join(wd, "settings.ndjson"), "-mitdir", mitdir], timeout=3400)
        # ---- the specification's decision procedure against MIT Kerberos' acceptor on the same minted requests (validates APExchange, not gokrb5)
        import mitcross
        ma = mitcross.spec_stage(run, mitcross.mit_apreq_cross, wd, mitdir, 4000)
        run.extra["apexchange_vs_mit_acceptor"] = {k: v for k, v in ma.items() if k not in ("first", "disagreeing_deviations")}
        if ma.get("disagreements"):
            vlib.spec_validation_problem(run, "APExchange and MIT's krb5_rd_req disagree on %d of %d requests (deviations: %s); first: %s"
                                         % (ma["disagreements"], ma["requests"], ma["disagreeing_deviations"], ma["first"]))
        lines = vlib.read_ndjson(trace)
        run.cov["evaluations"] = 2 * len(lines)
        accepted = sum(1 for x in lines if x["p1"]["ok"])
        run.extra["accepted_first_presentations"] = accepted
        bad = line_trace(run, wd, "TraceC01", len(lines), timeout=3400)
        if not bad and accepted == 0:
            raise vlib.Inconclusive("vacuous: no minted request was accepted at all")
        run.cov["distinct_nontrivial"] = len({(json.dumps(x["case"], sort_keys=True), json.dumps(x["settings"], sort_keys=True), x["et"])
                                              for x in lines if x["devs"]})
        run.cov["rule"] = ("abstract cases enumerated by TLC (GenC01): nominal + every single deviation (40) + every pair (739) of the "
                           "18-field catalogue; crossed by the harness with the 96 settings (pairs: 6 seed-rotated settings in quick, all in "
                           "thorough) and the six etypes; each minted AP-REQ is presented twice. evaluations = VerifyAPREQ calls; distinct = "
                           "distinct (case, settings, etype) with at least one deviation")
        for x in (lines[0], lines[len(lines) // 2], lines[-1]):
            run.sample({k: x[k] for k in ("case", "settings", "et", "conc", "p1", "p2")})
        for i in bad:
            x = lines[i - 1]
            facts = {"devs": sorted(set(x["devs"])), "vals": {d: x["case"][d] for d in x["devs"]}, "p1ok": x["p1"]["ok"], "p2ok": x["p2"]["ok"],
                     "panic": bool(x["p1"]["panic"] or x["p2"]["panic"])}
            run.violation(facts, {"line": x})
        run.extra["rejected_lines"] = len(bad)
        # ---- interoperability: MIT's client library against the simulated KDC, its AP-REQ against gokrb5's service
        mi, mbad = mitcross.mit_client_interop(wd)
        run.extra["interop_with_mit_client"] = mi
        for x in mbad:
            if x["mitStage"] < 7:
                vlib.spec_validation_problem(run, "MIT's client does not get through the simulated KDC (stage %d, %s)" % (x["mitStage"], x["mitMsg"]))
                continue
            run.violation({"interop": "mit-client", "et": x["et"], "accepted": x["accepted"], "panic": bool(x["panic"])}, {"line": x})
        if mi.get("available"):
            run.cov["evaluations"] += mi["scenarios"]
            run.cov["traces_validated_against_impl"] += mi["scenarios"] - len(mbad)
        # ---- the system specification, bound end to end (real client, simulated KDC, real service, attacker moves)
        import sysk5
        info, slines, problem = sysk5.run_sys(run, quick=not run.thorough)
        run.extra["system_spec"] = info
        run.cov["traces_validated_against_impl"] += info.get("events", 0) if not problem else 0
        if problem:
            run.violation({"system_trace": True}, {"problem": problem, "events": slines[:400]})
        run.assumptions += ["exact time boundaries (> vs >=) are not distinguished: instants are 3 s inside/outside each bound",
                            "tickets and authenticators are minted with gokrb5's own encoders/encryption (C05/C13 check those separately)",
                            "error codes are informational, not part of the verdict"]
    finally:
        shutil.rmtree(wd, ignore_errors=True)
    run.finish(exhaustive=run.thorough)


def replay(rep):
    main(rep.get("tier", "quick"))
