"""C19 - a PAC is accepted only with a valid server signature and is reported faithfully.

  role A  MCPACVerify   the decision procedure (PACVerify.tla) against the writer (PACFormat.tla) on every PAC composed of at most
                        4 (thorough 5) buffers of a small alphabet x 5 signature types, and the bit-classification theorem on every bit
                        of two small PACs
  role B  GenC19        self-validation on the captured sample PACs (layout reproduced byte for byte; the PAC issued by a real KDC is
                        accepted with the key of gokrb5's test keytab), rendering + signing of the driver's models, abstract
                        validation infos for the group-membership rule
  harness vh c19        PACType.Unmarshal + ProcessPACInfoBuffers and service.VerifyAPREQ on every image; all single-bit flips of the
                        swept images and of their keys; GetGroupMembershipSIDs on the abstract validation infos (worker processes
                        under an address-space limit: PAC processing allocates from sizes found in the input)
  role C  TraceC19      per line: verdict = PACVerify!Decide (recomputed for every flip), decoded validation info = known contents of
                        the buffer that counts, ADCredentials = PACAttributes!Expose(decoded), no panic, no dead process

violation facts:  {"ev": "case", "variant": <model variant>, "direct"/"ap"/"aplog": outcome}
                  {"ev": "flip" | "keyflip", "outcome": "panic" | "crash" | "accepted" | "not accepted" | ..., "field": <where the bit lies>}
                  {"ev": "sids", ...}
"""
import os, shutil, json, random, itertools, re
import vlib

SIGTYPES = [-138, 15, 16, 19, 20]
SIGLEN = {-138: 16, 15: 12, 16: 12, 19: 16, 20: 24}
KEYLEN = {-138: 16, 15: 16, 16: 32, 19: 16, 20: 32}
ETYPE = {-138: 23, 15: 17, 16: 18, 19: 19, 20: 20}          # the etype of the service key the ticket is sealed with
MANDATORY = (1, 6, 7, 10)


def le32(u):
    u &= 0xffffffff
    return [u & 255, (u >> 8) & 255, (u >> 16) & 255, (u >> 24) & 255]


def rhex(rnd, n):
    return bytes(rnd.getrandbits(8) for _ in range(n)).hex()


def data_item(t, hexdata):
    return {"kind": "data", "type": le32(t), "data": hexdata}


def sig_item(role, alg, decl=None, rodc=""):
    return {"kind": "sig", "role": role, "decl": le32(alg if decl is None else decl), "alg": alg, "rodc": rodc}


def raw_sig(rnd, bt, t):
    """a well-formed signature buffer with a random value, as plain data (ulType bt)"""
    return data_item(bt, bytes(le32(t)).hex() + rhex(rnd, SIGLEN[t]))


def buftype(it):
    return it["type"][0] if it["kind"] == "data" else (6 if it["role"] == "server" else 7)


def gen_models(rnd, samples, thorough):
    """the PAC models of one run.  Every model names the key the verifier is given (vkey, of etype vet), the verdict the driver
    intends (cross-checked against the decision procedure by GenC19) and the validation info a reader must report."""
    out = []
    vis = {s["name"]: s["buffers"][0][1] for s in samples}

    def add(name, items, skey, kkey, vkey, vet, expect, sweep=False, trail="", cut=0, version=None, decodable=True):
        out.append({"name": name, "version": version or [0, 0, 0, 0], "items": items, "skey": skey, "kkey": kkey, "trail": trail, "cut": cut,
                    "vkey": vkey, "vet": vet, "expect": expect, "sweep": sweep, "decodable": decodable})

    rounds = 3 if thorough else 1                 # further rounds: fresh random keys, base image (swept) and other-key case only
    for rd, (si, s) in itertools.product(range(rounds), enumerate(samples)):
        datab = [data_item(t, d) for t, d in s["buffers"] if t not in (6, 7)]
        for ti, T in enumerate(SIGTYPES):
            Tk = SIGTYPES[(ti + 1 + si) % len(SIGTYPES)]                       # the KDC signs with some other type
            skey, kkey = rhex(rnd, KEYLEN[T]), rhex(rnd, KEYLEN[Tk])
            S, K = sig_item("server", T), sig_item("kdc", Tk)
            base = datab + [S, K]
            tag = "%s/%d" % (s["name"], T) + ("" if rd == 0 else "/round%d" % rd)
            vet = ETYPE[T]

            def A(name, items, expect, **kw):
                add(tag + "/" + name, items, skey, kkey, kw.pop("vkey", skey), vet, expect, **kw)
            A("base", base, "accept", sweep=not s["lite"])
            if s["lite"]:
                continue
            other = rhex(rnd, KEYLEN[T])
            A("wrongkey", base, "reject", vkey=other)
            if rd > 0:
                continue
            A("kdckey", base, "reject", vkey=kkey if len(kkey) == len(skey) else other)
            # RODC identifiers
            rod = [("", "0102"), ("a1b2", ""), ("ffff", "0000")]
            for k, (rs, rk) in enumerate(rod):
                A("rodc%d" % k, datab + [sig_item("server", T, rodc=rs), sig_item("kdc", Tk, rodc=rk)], "accept", sweep=thorough or (k == 2 and ti == si))
            # removal of each buffer
            for i, it in enumerate(base):
                A("remove%d(type%d)" % (i, buftype(it)), base[:i] + base[i + 1:], "reject" if buftype(it) in MANDATORY else "accept")
            # duplication of each buffer: the exact copy at the end / right behind
            for i, it in enumerate(base):
                if it["kind"] == "data":
                    A("dupend%d" % i, base + [it], "accept")
                    A("dupnext%d" % i, base[:i + 1] + [it] + base[i + 1:], "accept")
            # a second, different buffer of a mandatory type: the first one counts
            for oname, ovi in vis.items():
                if ovi != datab[0]["data"]:
                    A("vi-then-" + oname, datab + [data_item(1, ovi), S, K], "accept")
                    A(oname + "-then-vi", [data_item(1, ovi)] + datab + [S, K], "accept")
            A("ci-then-other", base + [data_item(10, rhex(rnd, 8) + "0400" + "41004200")], "accept")
            A("garbage-ci-first", [data_item(10, "0000")] + base, "accept", decodable=False)          # whether the first one decodes is the decoder's business: see TraceC19
            for bt, role in ((6, "server"), (7, "kdc")):
                tt = T if bt == 6 else Tk
                g = raw_sig(rnd, bt, tt)
                A("sig%d-then-garbage" % bt, base + [g], "accept")
                A("garbage-then-sig%d" % bt, datab + [g, S, K], "reject")
                A("garbage-first-sig%d" % bt, [g] + base, "reject")
            # optional buffers a reader cannot decode (signed correctly): either verdict, but an orderly one
            if ti == si or thorough:
                for bt, junk in ((11, ""), (11, "00000000"), (12, ""), (12, "ffff1000ffff200000000000" + "00" * 12), (12, "0a00f0ff0a00100000000000" + "41" * 20),
                                 (13, ""), (13, "00000000"), (14, "01100800cccccccc"), (15, "00000000"), (99, "deadbeef")):
                    A("junk%d-%d" % (bt, len(junk) // 2), [it for it in datab if buftype(it) != bt] + [data_item(bt, junk), S, K], "accept", decodable=False)
            # order of the buffers
            perms = [list(reversed(base)), base[1:] + base[:1], base[-1:] + base[:-1], [S, K] + datab, [K, S] + datab, datab + [K, S]]
            if thorough and len(base) <= 5:
                perms += [list(p) for p in itertools.permutations(base)]
            else:
                for _ in range(4):
                    p = list(base)
                    rnd.shuffle(p)
                    perms.append(p)
            for k, p in enumerate(perms):
                A("perm%d" % k, p, "accept", sweep=thorough and k in (0, 4))
            # declared type is not the type the signature was made with (the declaration is part of the signed data)
            for T2 in SIGTYPES + [12, 0, 7, 17, 0x8000000f, 0x10f, -137]:
                if T2 != T:
                    A("decl%d" % T2, datab + [sig_item("server", T, decl=T2), K], "reject")
            # the KDC signature's declared type: only its length matters to the service (it cannot check the value)
            # (a KDC signature of a type outside the PAC signature types has no defined length: not offered)
            for T2 in SIGTYPES:
                if T2 != Tk:
                    A("kdcdecl%d" % T2, datab + [S, sig_item("kdc", Tk, decl=T2)], "accept" if SIGLEN[T2] == SIGLEN[Tk] else "reject")
            # bytes behind the last buffer are signed too; a cut image is damaged
            A("trail", base, "accept", trail=rhex(rnd, 8), sweep=thorough)
            A("trail0", base, "accept", trail="00" * 16)
            for c in (1, 4, 8, 9, 40, 100):
                A("cut%d" % c, base, "reject", cut=c)
        # degenerate images
    k16 = rhex(rnd, 16)
    add("empty", [], k16, k16, k16, 17, "reject")
    add("sigs-only", [sig_item("server", 15), sig_item("kdc", 15)], k16, k16, k16, 17, "reject")
    add("header-cut", [sig_item("server", 15), sig_item("kdc", 15)], k16, k16, k16, 17, "reject", cut=8 + 32 + 16 + 16 - 5)
    return out


def layout(img):
    """labels for reporting only: the field of the image a bit lies in (the verdict never depends on this)"""
    n = int.from_bytes(img[0:4], "little")
    ents = [(int.from_bytes(img[8 + 16 * i:12 + 16 * i], "little"), int.from_bytes(img[12 + 16 * i:16 + 16 * i], "little"),
             int.from_bytes(img[16 + 16 * i:24 + 16 * i], "little")) for i in range(n)]

    def field(bit):
        q = bit // 8
        if q < 4:
            return "cBuffers"
        if q < 8:
            return "version"
        if q < 8 + 16 * n:
            f = (q - 8) % 16
            return "table." + ("type" if f < 4 else "size" if f < 8 else "offset")
        for t, sz, off in ents:
            if off <= q < off + sz:
                return "buffer%d" % t
        return "padding"
    return field


def parse_set(txt):
    return [int(v) for v in re.findall(r"-?\d+", txt)]


def main(tier):
    run = vlib.Run("C19", "exploration", tier)
    vlib.build_harness()
    wd = vlib.spec_scratch(["c19", "crypto"])
    try:
        # role A: the decision procedure against the writer, on every small PAC
        if run.thorough:
            cfgtxt = open(os.path.join(wd, "MCPACVerify.cfg")).read().replace("MaxItems = 4", "MaxItems = 5")
            open(os.path.join(wd, "MCPACVerify.cfg"), "w").write(cfgtxt)
        res = vlib.tlc(wd, "MCPACVerify", timeout=1500)
        if res.violation or res.rc != 0 or not res.finished:
            raise vlib.Inconclusive("PACVerify fails its own theorems:\n" + res.out[-3000:])
        run.add_model(res)
        run.extra["model_states"] = res.distinct
        vlib.log("[c19] MCPACVerify: %d states in %.1fs" % (res.distinct, res.wall))
        # role B: self-validation against the captured samples, rendering and signing of the models
        rnd = random.Random(run.seed)
        samples = vlib.read_ndjson(os.path.join(wd, "samples.ndjson"))
        models = gen_models(rnd, samples, run.thorough)
        vlib.write_ndjson(os.path.join(wd, "models.ndjson"), models)
        g = vlib.tlc_or_die(wd, "GenC19", cfg="GenC19T.cfg" if run.thorough else "GenC19.cfg", workers=1, timeout=2400, xmx="12g")
        if g.tags("SAMPLEBAD"):
            raise vlib.Inconclusive("the specification does not reproduce / accept the captured sample PACs: %s" % g.tags("SAMPLEBAD"))
        if g.tags("MISMATCH"):
            raise vlib.Inconclusive("driver's intended verdict and decision procedure disagree on models %s (%s)" % (
                g.tags("MISMATCH")[:10], [models[int(i) - 1]["name"] for i in g.tags("MISMATCH")[:10]]))
        run.extra["generated"] = "models, accepted by the decision procedure, distinct images = " + (g.tags("COUNTS") or ["?"])[0] + \
                                 "; abstract validation infos = " + (g.tags("SIDCASES") or ["?"])[0]
        vlib.log("[c19] GenC19: %d models in %.1fs" % (len(models), g.wall))
        run.extra["samples_reproduced"] = [s["name"] for s in samples if s["pac"]]
        # ---- the decision procedure against MIT Kerberos' PAC verification on the same images (validates PACVerify / PACFormat, not gokrb5)
        import mitcross
        mp = mitcross.spec_stage(run, mitcross.mit_pac_cross, models, vlib.read_ndjson(os.path.join(wd, "images.ndjson")))
        run.extra["pacverify_vs_mit"] = {k: v for k, v in mp.items() if k != "first"}
        if mp.get("disagreements"):
            vlib.spec_validation_problem(run, "PACVerify and MIT's krb5_pac_verify disagree on %d images: %s" % (mp["disagreements"], mp["first"]))
        # the real code
        trace = os.path.join(wd, "trace.ndjson")
        h = vlib.run_harness(["c19", "-images", os.path.join(wd, "images.ndjson"), "-sids", os.path.join(wd, "sids.ndjson"), "-out", trace,
                              "-workers", str(min(12, vlib.NCPU)), "-seed", str(run.seed)], timeout=3000)
        run.extra["harness"] = h.stderr.strip().splitlines()[-1] if h.stderr.strip() else ""
        vlib.log("[c19] harness: " + run.extra["harness"])
        lines = vlib.read_ndjson(trace)
        images = vlib.read_ndjson(os.path.join(wd, "images.ndjson"))
        # role C
        res = vlib.tlc_or_die(wd, "TraceC19", timeout=3400)
        vlib.log("[c19] TraceC19: %d lines in %.1fs" % (len(lines), res.wall))
        if res.tags("THEOREM"):
            raise vlib.Inconclusive("the bit classification theorem of PACVerify fails on lines %s" % res.tags("THEOREM"))
        bad = sorted(int(v) for v in res.tags("BADLINE"))
        if res.distinct != len(lines) + 1:
            raise vlib.Inconclusive("TraceC19: TLC visited %d states, expected %d\n%s" % (res.distinct, len(lines) + 1, res.out[-2000:]))
        run.cov["traces_validated_against_impl"] += len(lines) - len(bad)
        run.add_model(res)
        from cryptocommon import binding_selftest
        binding_selftest(run, wd, "TraceC19", trace, 3400, exclude=bad)
        diffs = {}
        # TLC wraps long values over several lines: read the tuples from the raw output
        for m in re.finditer(r'<<\s*"SWEEPDIFF",\s*(\d+),\s*\{([^}]*)\},\s*\{([^}]*)\}\s*>>', res.out):
            diffs[int(m.group(1))] = (parse_set(m.group(2)), parse_set(m.group(3)))
        cases = [x for x in lines if x["ev"] == "case"]
        sweeps = [x for x in lines if x["ev"] == "sweep"]
        sids = [x for x in lines if x["ev"] == "sids"]
        flips = sum(x["nbits"] + x["nkeybits"] for x in sweeps)
        run.cov["evaluations"] = 3 * len(cases) + flips + len(sids)
        run.cov["distinct_nontrivial"] = len({x["image"] for x in cases}) + flips + len(sids)
        run.extra.update(cases=len(cases), sweeps=len(sweeps), flips=flips, sid_cases=len(sids),
                         accepted_cases=sum(1 for x in cases if x["direct"]["o"] == "accept"),
                         rejected_cases=sum(1 for x in cases if x["direct"]["o"] == "reject"),
                         accepted_flips=sum(len(x["accepted"]) for x in sweeps),
                         aborted_flips=sum(len(x["panicked"]) + len(x["crashed"]) for x in sweeps), rejected_lines=len(bad))
        run.cov["rule"] = ("images: the two captured sample PACs and a third one composed from captured buffers, laid out and signed by PACFormat.tla for each of "
                           "the 5 signature types with seeded random keys, in the variants base / other key / RODC identifiers / each buffer removed / "
                           "duplicated / second different buffer of a mandatory type before and after / buffer orders / declared type other than the "
                           "signing type (server and KDC) / trailing bytes / cut; each given to PACType.Unmarshal+ProcessPACInfoBuffers and, inside a minted "
                           "ticket, to service.VerifyAPREQ (with and without logger). sweeps: every single-bit flip of every byte of the base images (and one "
                           "RODC variant per sample) and of the key; TLC recomputes the decision for every flip. sids: every abstract validation info of the "
                           "generator's space. evaluations = 3 x cases + flips + sid cases; distinct = distinct images + flips + sid cases")
        for x in (cases[0] if cases else None, sweeps[0] if sweeps else None, sids[len(sids) // 2] if sids else None):
            if x:
                y = {k: v for k, v in x.items() if k not in ("seq", "image")}
                if "accepted" in y:
                    y["accepted"] = "%d bits" % len(y["accepted"])
                    y["panicked"] = "%d bits" % len(y["panicked"])
                    y["crashed"] = "%d bits" % len(y["crashed"])
                run.sample(y)
        byid = {g["id"]: g for g in images}
        for i in bad:
            x = lines[i - 1]
            if x["ev"] == "case":
                outs = {p: x[p]["o"] for p in ("direct", "ap", "aplog")}
                variant = re.sub(r"-?\d+(\(type\d+\))?$", "", x["name"].split("/")[-1]).rstrip("-")
                facts = {"ev": "case", "variant": variant, "direct": outs["direct"], "ap": outs["ap"], "aplog": outs["aplog"]}
                run.violation(facts, {"line": x, "key": byid[x["id"]]["vkey"], "vet": byid[x["id"]]["vet"]})
            elif x["ev"] == "sweep":
                img = bytes.fromhex(byid[x["id"]]["image"])
                field = layout(img)
                det = {"name": x["name"], "image": byid[x["id"]]["image"], "key": byid[x["id"]]["vkey"], "vet": byid[x["id"]]["vet"]}
                seen = set()
                for kind, bits in (("panic", x["panicked"]), ("crash", x["crashed"])):
                    for b in bits:
                        f = field(b)
                        if (kind, f) not in seen:
                            seen.add((kind, f))
                            run.violation({"ev": "flip", "outcome": kind, "field": f}, dict(det, bit=b))
                for kind, bits in (("panic", x["kpanicked"]), ("crash", x["kcrashed"])):
                    if bits:
                        run.violation({"ev": "keyflip", "outcome": kind}, dict(det, bit=bits[0]))
                extra, missing = diffs.get(i, ([], []))
                for b in extra[:50]:
                    run.violation({"ev": "flip", "outcome": "accepted", "field": field(b)}, dict(det, bit=b))
                for b in missing[:50]:
                    run.violation({"ev": "flip", "outcome": "not accepted", "field": field(b)}, dict(det, bit=b))
                if x["kaccepted"]:
                    run.violation({"ev": "keyflip", "outcome": "accepted"}, dict(det, bit=x["kaccepted"][0]))
                if any(hh != x["baseH"] for hh in x["acceptedH"]):
                    run.violation({"ev": "flip", "outcome": "accepted with other attributes"}, det)
                if not seen and not extra and not missing and not x["kaccepted"] and all(hh == x["baseH"] for hh in x["acceptedH"]):
                    run.violation({"ev": "sweep", "name": x["name"]}, det)
            else:
                run.violation({"ev": "sids", "o": x["o"], "nextra": len(x["vi"]["extraSIDs"]), "nres": len(x["vi"]["resourceRIDs"])}, {"line": x})
        run.assumptions += ["a signature of type T is checked with a key of T's size (HMAC_MD5: any size); other key sizes are not offered",
                            "the NDR decoding of the buffers is a dependency: decoded contents are compared with the known contents of the captured buffers, "
                            "not re-derived; FILETIME 0x7fffffffffffffff (never) may be converted to any time",
                            "worker processes run under a 3 GiB address-space limit; a worker that dies on a unit twice (second time as the first unit of a "
                            "new process) is recorded as crash",
                            "a PAC whose first validation-info or client-info buffer cannot be decoded may be accepted or rejected (never a panic)",
                            "the KDC signature is not verifiable by a service and is not checked"]
    finally:
        shutil.rmtree(wd, ignore_errors=True)
    run.finish(exhaustive=False)
def replay(rep):
    main(rep.get("tier", "quick"))
