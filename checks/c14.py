"""C14 - keytab files round-trip and key look-up returns only a matching key."""
import os, shutil, json, random
import vlib
from cryptocommon import line_trace


def be32(u):
    return [(u >> 24) & 255, (u >> 16) & 255, (u >> 8) & 255, u & 255]


def gen_models(rnd, n):
    ms = []
    ktypes = [1, 3, 16, 17, 18, 19, 20, 23, 24, 25, 32767, -1, -135]
    for k in range(n):
        version = 1 + (k % 2)
        items = []
        for _ in range(rnd.choice([0, 1, 1, 2, 3, 5, 8])):
            if rnd.random() < 0.2:
                items.append({"kind": "hole", "size": rnd.choice([1, 4, 10, 100]), "fill": rnd.choice([0, 0, 171])})
                continue
            has32 = rnd.random() < 0.6
            tr = b""
            if has32:
                tr = rnd.choice([b"", b"", bytes(4), bytes([0, 0, 0, 1, 9, 9])])
            else:
                tr = rnd.choice([b"", b"", b"\x01", b"\x00\x00\x07"])
            items.append({"kind": "entry",
                          "realm": bytes(rnd.getrandbits(7) | 0x20 for _ in range(rnd.choice([0, 1, 10, 12, 255, 300]))).hex(),
                          "comps": [bytes(rnd.getrandbits(7) | 0x20 for _ in range(rnd.choice([0, 1, 4, 8, 255, 260]))).hex()
                                    for _ in range(rnd.choice([0, 1, 2, 2, 3, 4]))],
                          "nameType": be32(rnd.choice([0, 1, 2, 3, 10, 0x7fffffff, 0xffffffff])),
                          "ts": be32(rnd.choice([0, 1, 1500000000, 0x7fffffff, 0x80000000, 0xffffffff, rnd.getrandbits(32)])),
                          "vno8": rnd.choice([0, 1, 2, 127, 128, 255]),
                          "ktype": rnd.choice(ktypes),
                          "key": bytes(rnd.getrandbits(8) for _ in range(rnd.choice([0, 8, 16, 24, 32, 64]))).hex(),
                          "hasVno32": has32,
                          "vno32": be32(rnd.choice([0, 1, 2, 255, 256, 257, 0x7fffffff, 0x80000000, 0xffffffff, rnd.getrandbits(32)])),
                          "trailing": tr.hex()})
        if k % 3 == 2:
            # every third model stays inside what MIT's reader accepts (no empty realm, component or key, at least one component),
            # so that the cross-check of the writer against that reader (mitcross) sees files with many entries
            for it in items:
                if it["kind"] == "entry":
                    it["realm"] = it["realm"] or b"R.TEST".hex()
                    it["comps"] = [c or b"c".hex() for c in it["comps"]] or [b"svc".hex()]
                    it["key"] = it["key"] or bytes(16).hex()
        ms.append({"version": version, "items": items})
    return ms


def main(tier):
    run = vlib.Run("C14", "model_checking", tier)
    vlib.build_harness()
    wd = vlib.spec_scratch(["c14", "crypto"])
    try:
        if run.thorough:
            cfgtxt = open(os.path.join(wd, "MCLookup.cfg")).read().replace("MaxEntries = 2", "MaxEntries = 3")
            open(os.path.join(wd, "MCLookup.cfg"), "w").write(cfgtxt)
        res = vlib.tlc(wd, "MCLookup", timeout=1200)
        if res.violation or res.rc != 0 or not res.finished:
            raise vlib.Inconclusive("KeytabLookup model fails its own theorems:\n" + res.out[-3000:])
        run.add_model(res)
        rnd = random.Random(run.seed)
        models = gen_models(rnd, 300 if not run.thorough else 5000)
        vlib.write_ndjson(os.path.join(wd, "models.ndjson"), models)
        g = vlib.tlc_or_die(wd, "GenC14", cfg="GenC14.cfg" if not run.thorough else "GenC14T.cfg", workers=1, timeout=2400, xmx="12g")
        run.extra["generated"] = "models, keytabs, queries = " + (g.tags("COUNTS") or ["?"])[0]
        # ---- the specification's writer against MIT Kerberos' reader (validates KeytabFormat, the oracle of the image lines)
        import mitcross
        mk = mitcross.spec_stage(run, mitcross.mit_keytab_cross, wd, 300 if not run.thorough else 2000)
        run.extra["keytabformat_vs_mit_reader"] = {k: v for k, v in mk.items() if k != "first"}
        if mk.get("disagreements"):
            vlib.spec_validation_problem(run, "KeytabFormat and MIT's keytab reader disagree on %d files; first: %s" % (mk["disagreements"], mk["first"]))
        trace = os.path.join(wd, "trace.ndjson")
        vlib.run_harness(["c14", "-out", trace, "-images", os.path.join(wd, "images.ndjson"), "-lookups", os.path.join(wd, "lookups.ndjson"),
                          "-queries", os.path.join(wd, "queries.ndjson")], timeout=3000, ok_codes=(0, 3))   # 3: stopped after calls that never returned; the trace is a prefix
        lines = vlib.read_ndjson(trace)
        run.cov["evaluations"] = len(lines)
        bad = line_trace(run, wd, "TraceC14", len(lines), timeout=3400)
        imgs = [x for x in lines if x["ev"] == "image"]
        # ---- gokrb5's writer judged by MIT's reader: the re-marshalled files must hold the model's entries for MIT too
        mw, mwbad = mitcross.mit_reads_gokrb5_keytabs(wd, imgs, 300 if not run.thorough else 3000)
        run.extra["gokrb5_keytabs_read_by_mit"] = mw
        for x in mwbad:
            run.violation({"ev": "marshal-read-by-mit", "version": x["model"]["version"]}, {"line": x})
        if mw.get("available"):
            run.cov["evaluations"] += mw["files"]
            run.cov["traces_validated_against_impl"] += mw["files"] - len(mwbad)
        lk = [x for x in lines if x["ev"] == "lookup"]
        run.extra["images"] = len(imgs)
        run.extra["lookups"] = len(lk)
        run.extra["lookups_found"] = sum(1 for x in lk if not x["err"])
        run.cov["distinct_nontrivial"] = len({x["image"] for x in imgs if x["parsed"]}) + len({json.dumps([x["kt"], x["q"]], sort_keys=True) for x in lk if len(x["kt"]) > 0})
        run.cov["rule"] = ("images: seeded keytab models (versions 1/2, 0..8 items, holes, 0..4 components, names of 0..300 bytes, key types incl. "
                           "unsupported/negative ids, timestamps and kvno over the 32-bit range, with/without the 32-bit kvno, trailing bytes) "
                           "rendered by KeytabFormat.tla; look-ups: every keytab of <= 2 (thorough 3) entries within two deviations of a base "
                           "entry (incl. prefix/extension of components, other realm/etype, kvno + 256), each written under three clocks (recent dates, time stamps 0 and 1, the last values of the 32-bit field) x 80 queries, enumerated by TLC. distinct = "
                           "distinct non-empty images + distinct (keytab, query) pairs")
        for x in (imgs[1] if len(imgs) > 1 else None, lk[100] if len(lk) > 100 else None):
            if x:
                run.sample({k: v for k, v in x.items() if k not in ("seq", "remarshal")})
        for i in bad:
            x = lines[i - 1]
            if x["ev"] == "image":
                facts = {"ev": "image", "version": x["model"]["version"], "parse_err": x["err"], "panic": bool(x["panic"]),
                         "first_parse_ok": (not x["err"]) and len(x["parsed"]) == sum(1 for it in x["model"]["items"] if it["kind"] == "entry")}
            else:
                facts = {"ev": "lookup", "err": x["err"], "q": x["q"], "n": len(x["kt"])}
            run.violation(facts, {"line": x})
        run.extra["rejected_lines"] = len(bad)
        run.assumptions += ["version 1 files use the byte order of this (little-endian) host", "ties between equally new entries are unspecified"]
    finally:
        shutil.rmtree(wd, ignore_errors=True)
    run.finish(exhaustive=False)


def replay(rep):
    main(rep.get("tier", "quick"))
