"""C20 - keys and passwords never leak into diagnostics, errors, logs or encodings."""
import os, shutil, json
import vlib
from cryptocommon import line_trace


def main(tier):
    run = vlib.Run("C20", "exploration", tier)
    vlib.build_harness()
    wd = vlib.spec_scratch(["c20", "crypto"])
    try:
        res = vlib.tlc(wd, "SecretFlow", cfg="MCSecret.cfg", timeout=900)
        if res.violation or res.rc != 0 or not res.finished:
            raise vlib.Inconclusive("SecretFlow model leaks with the intended renderings:\n" + res.out[-3000:])
        run.add_model(res)
        g = vlib.tlc_or_die(wd, "GenC20", cfg="GenC20.cfg" if not run.thorough else "GenC20T.cfg", workers=1, timeout=600)
        run.extra["sequences"] = (g.tags("COUNTS") or ["?"])[0]
        trace = os.path.join(wd, "trace.ndjson")
        vlib.run_harness(["c20", "-seed", str(run.seed), "-tier", run.tier, "-out", trace, "-sequences", os.path.join(wd, "sequences.ndjson")], timeout=3400)
        lines = vlib.read_ndjson(trace)
        run.cov["evaluations"] = len(lines)
        bad = line_trace(run, wd, "TraceC20", len(lines), timeout=3000)
        surf = [x for x in lines if x["ev"] == "surface"]
        run.extra["outputs_searched"] = len(lines)
        run.extra["bytes_searched"] = sum(x.get("len", 0) for x in surf)
        run.extra["surfaces"] = sorted({x["surface"].split(":")[0] for x in surf})
        if not bad and not any(x["surface"].startswith("wire:") for x in surf):
            raise vlib.Inconclusive("vacuous: no wire encoding after decryption was produced")
        run.cov["distinct_nontrivial"] = len({(json.dumps(x["ops"]), x["surface"]) for x in surf if x["len"] > 0}) + sum(1 for x in lines if x["ev"] == "truncation" and x["err"])
        run.cov["rule"] = ("operation sequences up to length 2 (thorough 3) over {login, login with a wrong password, ticket request, request for an unknown "
                           "SPN, service-side verification, ticket decryption, KRB-PRIV round trip, destroy} enumerated by TLC from SecretFlow.tla, run "
                           "against the simulated KDC with high-entropy marker password/keys; after each sequence every surface (Print, Diagnostics, "
                           "keytab/config/credentials JSON, gob, logger output, every returned error, wire encodings after decryption) is searched for "
                           "every marker (password, long-term keys, session keys, subkeys) raw, hex and base64 (3 alignments); plus every truncation of a "
                           "key-bearing keytab image and of the sample ccache. distinct = non-empty (sequence, surface) outputs + truncations that error")
        for x in surf[:2]:
            run.sample({k: x[k] for k in ("ops", "surface", "len", "hits")})
        for i in bad:
            x = lines[i - 1]
            if x["ev"] == "surface":
                facts = {"ev": "surface", "surface": x["surface"], "kinds": sorted({h["kind"] for h in x["hits"]}), "panic": bool(x["panic"])}
            else:
                facts = {"ev": "truncation", "file": x["file"], "kinds": sorted({h["kind"] for h in x["hits"]})}
            run.violation(facts, {"line": x})
        run.extra["rejected_lines"] = len(bad)
        run.assumptions += ["Keytab.String() (prints keys by design, like klist -K) and fmt's reflection over structs the application formats itself are not among the listed surfaces",
                            "markers shorter than 8 bytes are not searched"]
    finally:
        shutil.rmtree(wd, ignore_errors=True)
    run.finish(exhaustive=False)


def replay(rep):
    main(rep.get("tier", "quick"))
