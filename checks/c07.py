"""C07 - keyed checksums equal the RFC definitions and verify only exact matches."""
import os, shutil
import vlib
from cryptocommon import *


def main(tier):
    run = vlib.Run("C07", "exploration", tier)
    vlib.build_harness()
    wd = vlib.spec_scratch(["crypto"])
    try:
        trace = os.path.join(wd, "trace.ndjson")
        vlib.run_harness(["c07", "-seed", str(run.seed), "-tier", run.tier, "-out", trace], timeout=3000)
        lines = vlib.read_ndjson(trace)
        run.cov["evaluations"] = sum(x.get("offered", 0) + 1 for x in lines)
        bad = line_trace(run, wd, "TraceC07", len(lines))
        run.cov["distinct_nontrivial"] = len({(x["ct"], len(x["data"]) // 2, tuple(x["u"])) for x in lines if x["ev"] == "sum" and not x.get("missing")})
        run.cov["rule"] = ("checksum types {12,15,16,19,20,-138} x data lengths (quick 0,1,63,64,65,200; thorough 0..200) x usages from the "
                           "23-usage set x random keys: value compared byte for byte with the TLA+ RFC transcription; VerifyChecksum offered the "
                           "exact value, every truncation, 6 one-byte extensions, every single-bit flip, other data/key/usage; identifier "
                           "table lines for assigned and unassigned checksum types. evaluations = checksum computations + verifications; "
                           "distinct = (type, length, usage) cells")
        for x in lines[20:22]:
            run.sample({k: x.get(k) for k in ("ev", "ct", "et", "u", "data", "sum", "verify", "offered")})
        run.sample(lines[0])
        for i in bad:
            x = lines[i - 1]
            accepted = sorted({v["class"] for v in x.get("verify", []) if v["ok"] and v["class"] != "exact"})
            facts = {"ev": x["ev"], "ct": x["ct"], "accepted": accepted, "panic": bool(x.get("panic"))}
            run.violation(facts, {"line": x})
        run.extra["rejected_lines"] = len(bad)
        run.assumptions += ["trusted base as for C05 (KrbPrims.java)"]
    finally:
        shutil.rmtree(wd, ignore_errors=True)
    run.finish(exhaustive=False)


def replay(rep):
    main(rep.get("tier", "quick"))
