"""C02 - an authenticator is accepted at most once while it remains acceptable.
Role A: ReplayCacheAbs (the property) and ReplayCacheImpl (the repaired code at lock-section granularity) are model
checked, Impl => Abs as a refinement.  Role C: histories of the REAL cache - bounded-exhaustive sequential histories,
timed histories across expiry points, free-running parallel stress and ALL schedules of 2-4 concurrent operations
through the guarded yield points - are validated for linearizability against ReplayCacheAbs by TLC (TraceC02)."""
import os, shutil, json
import vlib


def split_histories(lines):
    hs, cur = [], None
    for x in lines:
        if x["ev"] == "reset":
            cur = [x]
            hs.append(cur)
        else:
            cur.append(x)
    return hs


def validate_part(part_histories):
    """validate a list of histories with TraceC02 in a scratch directory of its own; returns (rejected [(history, position)], accepted
    count, [TLC results], capped).  After a rejection the histories following the rejected one are validated in a new run (the
    prefix is already accepted), so that every violating history is found at the total cost of about one pass (capped)."""
    wd = vlib.spec_scratch(["c02"])
    try:
        rejected, results = [], []
        start, accepted, capped = 0, 0, False
        for it in range(25):
            part = part_histories[start:]
            if not part:
                break
            flat = [e for h in part for e in h]
            vlib.write_ndjson(os.path.join(wd, "trace.ndjson"), flat)
            res = vlib.tlc(wd, "TraceC02", workers=1, timeout=3400, xmx="3g")
            if res.violation and ("AtMostOnce" in res.out or "NoFalseReplay" in res.out):
                # an invariant of the abstract machine failed inside a validated prefix: cannot happen for an accepted
                # prefix (the trace actions are the abstract actions); treat as machinery failure
                raise vlib.Inconclusive("abstract invariant violated during trace validation:\n" + res.out[-3000:])
            if res.rc != 0 or not res.finished:
                raise vlib.Inconclusive("TraceC02 failed:\n" + res.out[-3000:])
            rej = res.tags("REJECTED")
            results.append(res)
            if not rej:
                accepted += len(part)
                break
            pos = int(rej[0]) - 1          # index (0-based) of the first event no behaviour explains
            n = 0
            for hi, h in enumerate(part):
                if pos < n + len(h):
                    rejected.append((h, pos - n))
                    accepted += hi
                    start += hi + 1
                    break
                n += len(h)
            else:
                raise vlib.Inconclusive("rejected position outside the trace")
        else:
            capped = True
        return rejected, accepted, results, capped
    finally:
        shutil.rmtree(wd, ignore_errors=True)


def validate(run, wd, histories):
    """validate histories (independent of each other: each starts with a reset) in up to 8 parallel TLC processes"""
    import concurrent.futures
    total = sum(len(h) for h in histories)
    nparts = max(1, min(8, total // 20000))
    parts, cur, size = [], [], 0
    for h in histories:
        cur.append(h)
        size += len(h)
        if size >= total / nparts and len(parts) < nparts - 1:
            parts.append(cur)
            cur, size = [], 0
    if cur:
        parts.append(cur)
    rejected, accepted = [], 0
    with concurrent.futures.ThreadPoolExecutor(max_workers=len(parts)) as ex:
        for rej, acc, results, capped in ex.map(validate_part, parts):
            rejected += rej
            accepted += acc
            for r in results:
                run.add_model(r)
            if capped:
                run.extra["validation_capped"] = True
    run.cov["traces_validated_against_impl"] = accepted
    return rejected


def main(tier):
    run = vlib.Run("C02", "model_checking", tier)
    vlib.build_harness()
    wd = vlib.spec_scratch(["c02"])
    try:
        # ---- role A
        for mod, cfg in (("MCAbs", "MCAbs.cfg" if not run.thorough else "MCAbsT.cfg"),
                         ("ReplayCacheImpl", "ReplayCacheImpl.cfg" if not run.thorough else "ReplayCacheImplT.cfg")):
            res = vlib.tlc(wd, mod, cfg=cfg, timeout=2400)
            if res.violation or res.rc != 0 or not res.finished:
                raise vlib.Inconclusive("%s: the model itself does not satisfy the property / refinement:\n%s" % (mod, res.out[-3000:]))
            run.add_model(res)
            run.extra.setdefault("models", []).append({"module": mod, "cfg": cfg, "distinct": res.distinct, "generated": res.generated})
        # ---- the unbounded core (any number of clients, times and calls), proved with TLAPS
        proved, nobl, pout = vlib.tlapm(wd, "ReplayCoreProof", timeout=900)
        if not proved:
            raise vlib.Inconclusive("TLAPS does not prove ReplayCoreProof (Spec => []AtMostOnce for the unbounded core):\n" + pout)
        run.extra["tlaps"] = {"module": "ReplayCoreProof", "theorem": "Spec => []AtMostOnce (unbounded clients, times, calls)", "obligations_proved": nobl}
        # ---- histories from the real code
        seed = str(run.seed)
        jobs = [("seq", ["-len", "4" if not run.thorough else "5", "-sample", "300" if not run.thorough else "3000"]),
                ("timed", ["-len", "5" if not run.thorough else "6", "-skewms", "300"]),
                ("stress", ["-rounds", "2000" if not run.thorough else "20000"]),
                ("sched", ["-g", "2"]), ("sched", ["-g", "3"]),
                ("apreq-stress", ["-rounds", "300" if not run.thorough else "3000"]), ("apreq-sched", ["-g", "2"]), ("apreq-sched", ["-g", "3"]),
                ("apreq-dated", ["-len", "4" if not run.thorough else "6"]),
                ("apreq-background", ["-rounds", "40" if not run.thorough else "400"])]
        if run.thorough:
            jobs += [("sched", ["-g", "4"]), ("timed", ["-len", "5", "-skewms", "1000"])]
        histories = []
        for i, (mode, extra) in enumerate(jobs):
            f = os.path.join(wd, "h%d.ndjson" % i)
            vlib.run_harness(["c02", "-mode", mode, "-seed", seed, "-out", f] + extra, timeout=3000)
            hs = split_histories(vlib.read_ndjson(f))
            run.extra.setdefault("histories_by_driver", {})[mode + " " + " ".join(extra)] = len(hs)
            histories += hs
        ops = [e for h in histories for e in h if e["ev"] == "inv"]
        rets = {e["op"]: e for h in histories for e in h if e["ev"] == "ret"}
        run.cov["evaluations"] = len(ops)
        amb = sum(1 for e in ops if not (abs(e["a"]["t"] - e["now"]) <= 1000 and abs(e["a"]["t"] - rets[e["op"]]["now"]) <= 1000))
        run.extra["time_ambiguous_ops"] = amb
        nreplay = sum(1 for e in rets.values() if e["r"] == "replay")
        nfresh = sum(1 for e in rets.values() if e["r"] == "fresh")
        run.extra["verdicts"] = {"fresh": nfresh, "replay": nreplay}
        if amb > 0.05 * len(ops):
            raise vlib.Inconclusive("too many time-ambiguous operations (%d of %d): machine too loaded for the timed histories" % (amb, len(ops)))
        # histories that contain a replay verdict or concurrency are the non-trivial ones
        def nontrivial(h):
            return any(e["ev"] == "ret" and e["r"] == "replay" for e in h) or h[0].get("kind") in ("stress", "sched", "apreq-stress", "apreq-sched", "apreq-dated", "apreq-background")
        run.cov["distinct_nontrivial"] = len({json.dumps([{k: v for k, v in e.items() if k not in ("seq", "op", "now")} for e in h], sort_keys=True)
                                              for h in histories if nontrivial(h)})
        run.cov["rule"] = ("histories of the real replay cache: all words up to length 4 (thorough 5) over 8 near-miss authenticators + clean-up, "
                           "random longer words; all words up to length 5 (6) over {present(-0.8 skew), present(0), present(+0.8 skew), wait 0.55 "
                           "skew, clean-up} in scaled real time; free-running stress rounds of 2-16 goroutines; every schedule of 2,3 (4) "
                           "operations through the yield points in 7 scenarios. evaluations = IsReplay calls; distinct = distinct histories "
                           "with a replay verdict or with concurrency")
        other = [e["r"] for e in rets.values() if e["r"] not in ("fresh", "replay")]
        run.extra["verdicts_other"] = len(other)
        for kind in ("seq", "timed", "stress", "sched", "apreq-sched"):
            for h in histories:
                if h[0].get("kind") == kind and nontrivial(h) and len(h) < 14:
                    run.sample(h)
                    break
        rejected = validate(run, wd, histories)
        validated = run.cov["traces_validated_against_impl"]
        if not rejected:
            # ---- binding self-test (DESIGN 0.6): sequential histories with one verdict inverted must all be rejected
            import copy
            corrupted = []
            for want in ("replay", "fresh"):
                for h in histories:
                    if h[0].get("kind") == "seq" and sum(1 for e in h if e["ev"] == "ret" and e["r"] == want) >= 1 and len(h) <= 12:
                        h2 = copy.deepcopy(h)
                        e = [e for e in h2 if e["ev"] == "ret" and e["r"] == want][-1 if want == "replay" else 0]
                        e["r"] = "fresh" if want == "replay" else "replay"
                        corrupted.append(h2)
                        if len(corrupted) % 4 == 0:
                            break
            nrej = len(validate(run, wd, corrupted)) if corrupted else 0
            run.cov["traces_validated_against_impl"] = validated
            run.extra["binding_selftest"] = {"TraceC02": {"corrupted_histories": len(corrupted), "rejected": nrej}}
            if nrej != len(corrupted):
                raise vlib.Inconclusive("binding self-test: TraceC02 accepted %d of %d histories with an inverted verdict" % (len(corrupted) - nrej, len(corrupted)))
        if not rejected and (nreplay == 0 or nfresh == 0):
            raise vlib.Inconclusive("vacuous: the cache never answered %s" % ("replay" if nreplay == 0 else "fresh"))
        for h, pos in rejected:
            kind = h[0].get("kind")
            facts = {"kind": kind, "scenario": h[0].get("scenario", ""), "word": h[0].get("word", ""), "verdicts": [e["r"] for e in h if e["ev"] == "ret"]}
            if kind in ("stress", "sched", "timed", "apreq-stress", "apreq-sched", "apreq-dated", "apreq-background"):
                facts = {"kind": kind, "scenario": h[0].get("scenario", ""), "word": h[0].get("word", "")}
            run.violation(facts, {"history": h, "first_unexplained_event": pos})
        run.assumptions += ["one clock-skew setting per process (the singleton's cleaner keeps the first caller's duration); the harness makes it inert (24h) and calls ClearOldEntries itself",
                            "a call straddling the edge of the skew window is time-ambiguous and accepted either way (counted)",
                            "the systematic driver covers interleavings at the guarded yield points; a split critical section without a yield point in between is left to the free-running stress driver"]
    finally:
        shutil.rmtree(wd, ignore_errors=True)
    run.finish(exhaustive=False)


def replay(rep):
    main(rep.get("tier", "quick"))
