"""SYS - end-to-end binding of the system specification Kerberos5.tla (not a listed property; run by C01 and by bin/selftest).
Real client + simulated KDC + real service + attacker moves; the recorded event sequence must be a behaviour of Kerberos5
(trace actions reuse Kerberos5!Valid / AuthId / Identity) with Agreement and AtMostOnce checked in every state."""
import sys, os, json, shutil
import vlib


def run_sys(run, quick=True):
    wd = vlib.spec_scratch(["system"])
    try:
        info = {"models": {}}
        for cfg, expect in (("MCK5.cfg", False), ("MCK5_nocrealm.cfg", True), ("MCK5_nonatomic.cfg", True), ("MCK5_nononce.cfg", True)):
            res = vlib.tlc(wd, "MCK5", cfg=cfg, timeout=1200)
            info["models"][cfg] = {"distinct": res.distinct, "violation": bool(res.violation)}
            if bool(res.violation) != expect or (not expect and (res.rc != 0 or not res.finished)):
                raise vlib.Inconclusive("Kerberos5 %s: expected violation=%s, got %s\n%s" % (cfg, expect, res.violation, res.out[-2000:]))
            if not expect:
                run.add_model(res)
        trace = os.path.join(wd, "trace.ndjson")
        vlib.run_harness(["sys", "-seed", str(run.seed), "-rounds", "12" if quick else "120", "-out", trace], timeout=1200)
        lines = vlib.read_ndjson(trace)
        res = vlib.tlc(wd, "TraceK5", workers=1, timeout=1200)
        if res.rc != 0 or not res.finished:
            if res.violation:
                return info, lines, "a system invariant (Agreement / AtMostOnce) is violated by the recorded run:\n" + res.out[-1500:]
            raise vlib.Inconclusive("TraceK5 failed:\n" + res.out[-3000:])
        rej = res.tags("REJECTED")
        info["events"] = len(lines)
        info["ap_accept"] = sum(1 for x in lines if x["ev"] == "ap" and x["result"] == "accept")
        info["ap_reject"] = sum(1 for x in lines if x["ev"] == "ap" and x["result"] == "reject")
        if rej:
            pos = int(rej[0])
            return info, lines, "event %d is not a step of Kerberos5: %s" % (pos, lines[pos - 1])
        if info["ap_accept"] == 0 or info["ap_reject"] == 0:
            raise vlib.Inconclusive("system trace vacuous: %s" % info)
        # ---- binding self-test (DESIGN 0.6): the same run with one refused presentation reported as accepted is not a behaviour
        k = next((i for i, x in enumerate(lines) if x["ev"] == "ap" and x["result"] == "reject"), None)
        if k is not None:
            bad = [dict(x) for x in lines]
            bad[k]["result"] = "accept"
            vlib.write_ndjson(trace, bad)
            res2 = vlib.tlc(wd, "TraceK5", workers=1, timeout=1200)
            info["binding_selftest"] = {"corrupted_event": k + 1, "rejected": bool(res2.tags("REJECTED")) or bool(res2.violation)}
            if not info["binding_selftest"]["rejected"]:
                raise vlib.Inconclusive("binding self-test: TraceK5 accepts a run in which refused presentation %d is reported accepted" % (k + 1))
        return info, lines, None
    finally:
        shutil.rmtree(wd, ignore_errors=True)


def run_tgs(run, quick=True):
    """Kerberos5TGS.tla (AS / TGS / referrals, client side): model checked with its weakenings, then bound end to end:
    the real client against simulated KDCs of ten realms with an attacker who replays earlier replies (vh systgs)."""
    wd = vlib.spec_scratch(["system"])
    try:
        info = {"models": {}}
        for cfg, expect in (("MCK5TGS.cfg", None), ("MCK5TGS_hops2.cfg", None), ("MCK5TGS_nononce.cfg", "DeliveredIsRight"), ("MCK5TGS_unbounded.cfg", "HopsBounded"),
                            ("MCK5TGS_authrealm.cfg", "ClientRequestsValid")):
            res = vlib.tlc(wd, "MCK5TGS", cfg=cfg, timeout=1800)
            violated = None
            if res.violation:
                import re
                m = re.search(r"Invariant (\w+) is violated", res.out)
                violated = m.group(1) if m else "?"
            info["models"][cfg] = {"distinct": res.distinct, "violated": violated}
            if violated != expect or (expect is None and (res.rc != 0 or not res.finished)):
                raise vlib.Inconclusive("Kerberos5TGS %s: expected violated invariant %s, got %s\n%s" % (cfg, expect, violated, res.out[-2000:]))
            if expect is None:
                run.add_model(res)
        trace = os.path.join(wd, "trace.ndjson")
        vlib.run_harness(["systgs", "-seed", str(run.seed), "-rounds", "6" if quick else "48", "-out", trace], timeout=2400)
        lines = vlib.read_ndjson(trace)
        res = vlib.tlc(wd, "TraceK5TGS", workers=1, timeout=1200)
        info["events"] = len(lines)
        info["delivered"] = sum(1 for x in lines if x["ev"] == "deliver")
        info["gave_up"] = sum(1 for x in lines if x["ev"] == "giveup")
        info["replayed_replies"] = sum(1 for x in lines if x.get("replayed"))
        info["followed_referrals_max"] = max([x["tgsreqs"] for x in lines if x["ev"] == "deliver"] + [0]) - 1
        if res.violation:
            return info, lines, "a delivered ticket is not the one issued for the service asked for (DeliveredIsRight):\n" + res.out[-1500:]
        if res.rc != 0 or not res.finished:
            raise vlib.Inconclusive("TraceK5TGS failed:\n" + res.out[-3000:])
        rej = res.tags("REJECTED")
        if rej:
            pos = int(rej[0])
            return info, lines, "event %d is not a step of Kerberos5TGS: %s" % (pos, lines[pos - 1])
        if info["delivered"] == 0 or info["gave_up"] == 0 or info["replayed_replies"] == 0 or info["followed_referrals_max"] < 2:
            raise vlib.Inconclusive("system trace vacuous: %s" % info)
        # ---- binding self-test: one delivery reported for another service than the ticket's is not a behaviour
        k = next((i for i, x in enumerate(lines) if x["ev"] == "deliver"), None)
        bad = [dict(x) for x in lines]
        bad[k]["want"] = "HTTP/some.other.service"
        vlib.write_ndjson(trace, bad)
        res2 = vlib.tlc(wd, "TraceK5TGS", workers=1, timeout=1200)
        info["binding_selftest"] = {"corrupted_event": k + 1, "rejected": bool(res2.violation) or bool(res2.tags("REJECTED"))}
        if not info["binding_selftest"]["rejected"]:
            raise vlib.Inconclusive("binding self-test: TraceK5TGS accepts a delivery for another service")
        return info, lines, None
    finally:
        shutil.rmtree(wd, ignore_errors=True)


def _as_round(lines, pos):
    """the events of the round (one client) that holds event number pos (1-based)"""
    a = max(i for i in range(pos) if lines[i]["ev"] == "reset")
    b = next((i for i in range(pos, len(lines)) if lines[i]["ev"] == "reset"), len(lines))
    return a, b


def run_as(run, quick=True):
    """ASExchange.tla (Login: pre-authentication negotiation, client referrals, errors): model checked with its weakenings and against
    a conformant KDC, then bound end to end: the real Client.Login against scripted KDCs of four realms (vh sysas).  Returns
    (info, [(problem text, facts, events of the round)])."""
    import re
    wd = vlib.spec_scratch(["system"])
    try:
        info = {"models": {}}
        for mod, cfg, expect in (("MCAS", "MCAS.cfg", None), ("MCAS", "MCAS_free.cfg", None), ("MCAS", "MCAS_unbounded.cfg", "SendsBounded"),
                                 ("MCASConformant", "MCASConformant.cfg", None), ("MCASConformant", "MCASConformant_asfound.cfg", "LoginSucceeds"),
                                 ("MCASConformant", "MCASConformant_preferred.cfg", "LoginSucceeds")):
            res = vlib.tlc(wd, mod, cfg=cfg, timeout=1200)
            violated = None
            if res.violation:
                m = re.search(r"Invariant (\w+) is violated", res.out)
                violated = m.group(1) if m else "?"
            info["models"][cfg] = {"distinct": res.distinct, "violated": violated}
            if violated != expect or (expect is None and (res.rc != 0 or not res.finished)):
                raise vlib.Inconclusive("ASExchange %s: expected violated invariant %s, got %s\n%s" % (cfg, expect, violated, res.out[-2000:]))
            if expect is None:
                run.add_model(res)
        trace = os.path.join(wd, "trace.ndjson")
        vlib.run_harness(["sysas", "-seed", str(run.seed), "-rounds", "36" if quick else "360", "-out", trace], timeout=2400)
        lines = vlib.read_ndjson(trace)
        info["events"] = len(lines)
        info["clients"] = sum(1 for x in lines if x["ev"] == "reset")
        info["logins"] = sum(1 for x in lines if x["ev"] == "login")
        info["logins_succeeded"] = sum(1 for x in lines if x["ev"] == "result" and x["ok"])
        info["requests"] = sum(1 for x in lines if x["ev"] == "req")
        info["answers"] = {}
        for x in lines:
            if x["ev"] == "req":
                a = x["answer"]
                k = a["t"] + ("-%d" % a["code"] if a["t"] == "preauth" else "") + ("-bad" if a["t"] == "reply" and not a["good"] else "")
                info["answers"][k] = info["answers"].get(k, 0) + 1
        info["preauthenticated_requests"] = sum(1 for x in lines if x["ev"] == "req" and x["pa"])
        info["longest_login_requests"] = 0
        n = 0
        for x in lines:
            n = n + 1 if x["ev"] == "req" else 0 if x["ev"] == "login" else n
            info["longest_login_requests"] = max(info["longest_login_requests"], n)

        def validate(cfg, ls):
            """positions (in ls) of the rounds the specification rejects: a rejected round is cut out and the rest validated again"""
            ls = list(ls)
            problems = []
            while len(problems) < 12:
                vlib.write_ndjson(trace, ls)
                res = vlib.tlc(wd, "TraceAS", cfg=cfg, workers=1, timeout=1200)
                m = re.search(r"Invariant (\w+) is violated", res.out) if res.violation else None
                rej = res.tags("REJECTED")
                if not m and (res.rc != 0 or not res.finished):
                    raise vlib.Inconclusive("TraceAS (%s) failed:\n%s" % (cfg, res.out[-3000:]))
                if not m and not rej:
                    break
                if m:
                    # the invariant fails in the state after some event: find it by bisection over rounds is not needed - TLC prints l
                    lm = re.findall(r"/\\ l = (\d+)", res.out)
                    pos = int(lm[-1]) - 1 if lm else 1
                    why = "invariant %s of ASExchange fails after event" % m.group(1)
                else:
                    pos = int(rej[0])
                    why = "not a step of ASExchange: event"
                pos = max(1, min(pos, len(ls)))
                a, b = _as_round(ls, pos)
                problems.append((why, pos - a, ls[a:b]))
                ls = ls[:a] + ls[b:]
            return problems
        problems = validate("TraceAS.cfg", lines)
        out = []
        for why, k, rnd in problems:
            x = rnd[k - 1] if 0 < k <= len(rnd) else rnd[-1]
            prev = next((y for y in reversed(rnd[:max(k - 1, 0)]) if y["ev"] == "req"), None)
            facts = {"system_trace": "as", "event": x["ev"], "after_answer": (prev["answer"]["t"] + (str(prev["answer"].get("code", "")) if prev["answer"]["t"] == "preauth" else "")) if prev else "",
                     "password": rnd[0]["password"], "customSalt": rnd[0]["customSalt"]}
            out.append(("%s %d of the round: %s" % (why, k, json.dumps(x)[:600]), facts, rnd))
        info["rounds_rejected"] = len(out)
        # the code as it is, in every detail the specification has (first requests, error classes): drift of the model, not a verdict
        drift = validate("TraceAS_faithful.cfg", lines) if not out else []
        info["model_drift_rounds"] = len(drift)
        if drift:
            vlib.spec_validation_problem(run, "ASExchange (Faithful) no longer describes what the code does in %d rounds; first: %s %d of %s"
                                         % (len(drift), drift[0][0], drift[0][1], json.dumps(drift[0][2])[:900]))
        if not out:
            if info["logins_succeeded"] == 0 or info["answers"].get("wrongrealm", 0) == 0 or info["answers"].get("preauth-24", 0) == 0 or info["longest_login_requests"] < 7:
                raise vlib.Inconclusive("system trace vacuous: %s" % info)
            # ---- binding self-test: corrupted events must be rejected
            st = {}
            k = next(i for i, x in enumerate(lines) if x["ev"] == "result" and not x["ok"])
            bad = [dict(x) for x in lines]
            bad[k]["ok"] = True
            st["failed login reported as success"] = bool(validate("TraceAS.cfg", bad))
            k = next(i for i, x in enumerate(lines) if x["ev"] == "req" and x["pa"] and lines[i - 1]["ev"] == "req" and lines[i - 1]["answer"]["t"] == "preauth")
            bad = [dict(x) for x in lines]
            bad[k]["et"] = 17 if bad[k]["et"] != 17 else 18
            st["solicited timestamp under another etype"] = bool(validate("TraceAS.cfg", bad))
            bad = [dict(x) for x in lines]
            bad[k]["keyHint"] = bad[k]["keyStored"] = False
            st["solicited timestamp under another key"] = bool(validate("TraceAS.cfg", bad))
            k = next(i for i, x in enumerate(lines) if x["ev"] == "req" and x["answer"]["t"] == "wrongrealm" and lines[i + 1]["ev"] == "req")
            bad = [dict(x) for x in lines]
            bad[k + 1]["at"] = "R0.AS.TEST" if bad[k + 1]["at"] != "R0.AS.TEST" else "R1.AS.TEST"
            st["referral followed to another realm"] = bool(validate("TraceAS.cfg", bad))
            info["binding_selftest"] = st
            if not all(st.values()):
                raise vlib.Inconclusive("binding self-test: TraceAS accepts a corrupted trace: %s" % st)
        return info, out
    finally:
        shutil.rmtree(wd, ignore_errors=True)


def run_kpasswd(run, quick=True):
    """KPasswd.tla (RFC 3244 exchange, client side): model checked with its weakening, then bound end to end: the real
    Client.ChangePasswd against a simulated password-change service and an attacker answering in its place (vh kpasswd)."""
    wd = vlib.spec_scratch(["kpasswd"])
    try:
        info = {"models": {}}
        for cfg, expect in (("MCKPasswd.cfg", False), ("MCKPasswd_errorform.cfg", True)):
            res = vlib.tlc(wd, "KPasswd", cfg=cfg, timeout=1200)
            info["models"][cfg] = {"distinct": res.distinct, "violation": bool(res.violation)}
            if bool(res.violation) != expect or (not expect and (res.rc != 0 or not res.finished)):
                raise vlib.Inconclusive("KPasswd %s: expected violation=%s, got %s\n%s" % (cfg, expect, res.violation, res.out[-2000:]))
            if not expect:
                run.add_model(res)
        proved, nobl, pout = vlib.tlapm(wd, "KPasswdProof", timeout=900)
        if not proved:
            raise vlib.Inconclusive("TLAPS does not prove KPasswdProof (Spec => []SuccessIsAuthentic, unbounded core):\n" + pout)
        info["tlaps"] = {"module": "KPasswdProof", "theorem": "Spec => []SuccessIsAuthentic (unbounded requests, subkeys, replies)", "obligations_proved": nobl}
        trace = os.path.join(wd, "trace.ndjson")
        import mitcross
        mexe = mitcross.build_mitref()
        vlib.run_harness(["kpasswd", "-seed", str(run.seed), "-rounds", "6" if quick else "60", "-out", trace] + (["-mitref", mexe] if mexe else []), timeout=2400)
        lines = vlib.read_ndjson(trace)
        res = vlib.tlc(wd, "TraceKPasswd", workers=1, timeout=1200)
        cl = [x for x in lines if x["ev"] == "client"]
        info["events"] = len(lines)
        info["exchanges"] = len(cl)
        info["success"] = sum(1 for x in cl if x["ok"])
        info["mit_client_exchanges"] = sum(1 for x in lines if x["ev"] == "mitclient")
        info["by_reply"] = {m: sum(1 for x in cl if x["reply"] == m) for m in sorted({x["reply"] for x in cl})}
        if res.violation:
            return info, lines, "an invariant of KPasswd (SuccessIsAuthentic / ClientPasswordWasApplied / DatabaseFollowsRequests) is violated by the recorded run:\n" + res.out[-1500:]
        if res.rc != 0 or not res.finished:
            raise vlib.Inconclusive("TraceKPasswd failed:\n" + res.out[-3000:])
        rej = res.tags("REJECTED")
        if rej:
            pos = int(rej[0])
            return info, lines, "event %d is not a step of KPasswd: %s" % (pos, lines[pos - 1])
        if info["success"] == 0 or len(info["by_reply"]) < 9:
            raise vlib.Inconclusive("kpasswd trace vacuous: %s" % info)
        # ---- binding self-test: an attacker's reply reported as success is not a behaviour
        k = next((i for i, x in enumerate(lines) if x["ev"] == "client" and x["reply"] == "reflected"), None)
        bad = [dict(x) for x in lines]
        bad[k]["ok"] = True
        bad[k]["pwAfter"] = bad[k]["new"]
        vlib.write_ndjson(trace, bad)
        res2 = vlib.tlc(wd, "TraceKPasswd", workers=1, timeout=1200)
        info["binding_selftest"] = {"corrupted_event": k + 1, "rejected": bool(res2.violation) or bool(res2.tags("REJECTED"))}
        if not info["binding_selftest"]["rejected"]:
            raise vlib.Inconclusive("binding self-test: TraceKPasswd accepts a reflected reply reported as success")
        return info, lines, None
    finally:
        shutil.rmtree(wd, ignore_errors=True)


def run_basicauth(run):
    """BasicAuth.tla (service.KRB5BasicAuthenticator under KDC spoofing - a mechanism none of the listed properties names): the three
    variants of the service's check are model checked (the complete one holds, the two weaker ones are violated), then the real
    Authenticate is run against the simulated KDC with an attacker answering in its place (vh basicauth) and the trace is replayed
    through the specification: the variant the code conforms to is recorded, and every call in which the real service said yes to a
    sender who does not know the password is an OBSERVATION (no listed property covers it: it never decides the exit code)."""
    import re
    wd = vlib.spec_scratch(["system"])
    try:
        info = {"models": {}}
        for v, expect in (("full", False), ("cname", True), ("decryptOnly", True)):
            res = vlib.tlc(wd, "BasicAuth", cfg="MCBasic_%s.cfg" % v, timeout=600)
            m = re.search(r"Invariant (\w+) is violated", res.out) if res.violation else None
            info["models"][v] = {"distinct": res.distinct, "violated": m.group(1) if m else None}
            if bool(res.violation) != expect or (expect and (not m or m.group(1) != "YesMeansPassword")) or (not expect and (res.rc != 0 or not res.finished)):
                raise vlib.Inconclusive("BasicAuth %s: expected violation=%s, got\n%s" % (v, expect, res.out[-2000:]))
            if not expect:
                run.add_model(res)
        proved, nobl, pout = vlib.tlapm(wd, "BasicAuthProof", timeout=900)
        if not proved:
            raise vlib.Inconclusive("TLAPS does not prove BasicAuthProof (Spec => []YesMeansPassword for the complete check, unbounded calls):\n" + pout)
        info["tlaps"] = {"module": "BasicAuthProof", "theorem": "Spec => []YesMeansPassword (Verification = full, unbounded calls)", "obligations_proved": nobl}
        trace = os.path.join(wd, "trace.ndjson")
        vlib.run_harness(["basicauth", "-seed", str(run.seed), "-out", trace], timeout=1200)
        lines = vlib.read_ndjson(trace)
        info["calls"] = len(lines)
        info["yes"] = sum(1 for x in lines if x["yes"])
        info["answered_by_attacker"] = sum(1 for x in lines if x["asBy"] == "attacker" or x["tgsBy"] == "attacker")
        info["panics"] = sum(1 for x in lines if x["panic"])
        conforms = None
        for v in ("decryptOnly", "cname", "full"):
            res = vlib.tlc(wd, "TraceBasicAuth", cfg="TraceBasicAuth_%s.cfg" % v, workers=1, timeout=600)
            if res.rc != 0 or not res.finished:
                raise vlib.Inconclusive("TraceBasicAuth (%s) failed:\n%s" % (v, res.out[-3000:]))
            rej = res.tags("REJECTED")
            info.setdefault("first_rejected_line", {})[v] = int(rej[0]) if rej else None
            if not rej and conforms is None:
                conforms = v
        info["conforms_to"] = conforms
        by = [x for x in lines if x["yes"] and x["by"] != x["user"]]
        info["yes_to_a_sender_without_the_password"] = len(by)
        info["of_those_by_ticket"] = {k: sum(1 for x in by if x["ticket"] == k) for k in sorted({x["ticket"] for x in by})}
        if conforms is None:
            vlib.spec_validation_problem(run, "BasicAuth describes the real KRB5BasicAuthenticator under none of its three variants: first rejected lines %s"
                                         % info["first_rejected_line"])
        if by:
            x = by[0]
            print("OBSERVATION (outside the listed properties): service.KRB5BasicAuthenticator said yes to %d of %d calls made by a sender who does not know the "
                  "claimed user's password, when the KDC's answers came from an attacker (e.g. user=%s password=%s ticket=%s etype=%d): it checks that the service "
                  "ticket decrypts under the keytab, not whom it names nor that its session key was delivered (BasicAuth.tla, variant %s)"
                  % (len(by), len(lines), x["user"], x["pw"], x["ticket"], x["et"], conforms), file=sys.stderr)
        # ---- binding self-test: a refused call reported as accepted must be rejected by the variant the code conforms to
        if conforms:
            k = next(i for i, x in enumerate(lines) if not x["yes"])
            bad = [dict(x) for x in lines]
            bad[k]["yes"], bad[k]["idUser"], bad[k]["idRealm"] = True, bad[k]["user"], bad[k]["realm"]
            vlib.write_ndjson(trace, bad)
            res = vlib.tlc(wd, "TraceBasicAuth", cfg="TraceBasicAuth_%s.cfg" % conforms, workers=1, timeout=600)
            info["binding_selftest"] = {"corrupted_line": k + 1, "rejected": bool(res.tags("REJECTED"))}
            if not info["binding_selftest"]["rejected"]:
                raise vlib.Inconclusive("binding self-test: TraceBasicAuth accepts a refused call reported as accepted")
        if info["yes"] == 0 or info["answered_by_attacker"] == 0:
            raise vlib.Inconclusive("basic authentication trace vacuous: %s" % info)
        return info
    finally:
        shutil.rmtree(wd, ignore_errors=True)


def main(tier):
    run = vlib.Run("SYS", "model_checking", tier)
    vlib.build_harness()
    info, lines, problem = run_sys(run, tier != "thorough")
    print(info, problem)
    raise SystemExit(1 if problem else 0)
