"""SYS - end-to-end binding of the system specification Kerberos5.tla (not a listed property; run by C01 and by bin/selftest).
Real client + simulated KDC + real service + attacker moves; the recorded event sequence must be a behaviour of Kerberos5
(trace actions reuse Kerberos5!Valid / AuthId / Identity) with Agreement and AtMostOnce checked in every state."""
import os, shutil
import vlib


def run_sys(run, quick=True):
    wd = vlib.spec_scratch(["system"])
    try:
        info = {"models": {}}
        for cfg, expect in (("MCK5.cfg", False), ("MCK5_nocrealm.cfg", True), ("MCK5_nonatomic.cfg", True), ("MCK5_nononce.cfg", True)):
            res = vlib.tlc(wd, "MCK5", cfg=cfg, timeout=1200)
            info["models"][cfg] = {"distinct": res.distinct, "violation": bool(res.violation)}
            if bool(res.violation) != expect or (not expect and (res.rc != 0 or not res.finished)):
                raise vlib.Inconclusive("Kerberos5 %s: expected violation=%s, got %s\n%s" % (cfg, expect, res.violation, res.out[-2000:]))
            if not expect:
                run.add_model(res)
        trace = os.path.join(wd, "trace.ndjson")
        vlib.run_harness(["sys", "-seed", str(run.seed), "-rounds", "12" if quick else "120", "-out", trace], timeout=1200)
        lines = vlib.read_ndjson(trace)
        res = vlib.tlc(wd, "TraceK5", workers=1, timeout=1200)
        if res.rc != 0 or not res.finished:
            if res.violation:
                return info, lines, "a system invariant (Agreement / AtMostOnce) is violated by the recorded run:\n" + res.out[-1500:]
            raise vlib.Inconclusive("TraceK5 failed:\n" + res.out[-3000:])
        rej = res.tags("REJECTED")
        info["events"] = len(lines)
        info["ap_accept"] = sum(1 for x in lines if x["ev"] == "ap" and x["result"] == "accept")
        info["ap_reject"] = sum(1 for x in lines if x["ev"] == "ap" and x["result"] == "reject")
        if rej:
            pos = int(rej[0])
            return info, lines, "event %d is not a step of Kerberos5: %s" % (pos, lines[pos - 1])
        if info["ap_accept"] == 0 or info["ap_reject"] == 0:
            raise vlib.Inconclusive("system trace vacuous: %s" % info)
        # ---- binding self-test (DESIGN 0.6): the same run with one refused presentation reported as accepted is not a behaviour
        k = next((i for i, x in enumerate(lines) if x["ev"] == "ap" and x["result"] == "reject"), None)
        if k is not None:
            bad = [dict(x) for x in lines]
            bad[k]["result"] = "accept"
            vlib.write_ndjson(trace, bad)
            res2 = vlib.tlc(wd, "TraceK5", workers=1, timeout=1200)
            info["binding_selftest"] = {"corrupted_event": k + 1, "rejected": bool(res2.tags("REJECTED")) or bool(res2.violation)}
            if not info["binding_selftest"]["rejected"]:
                raise vlib.Inconclusive("binding self-test: TraceK5 accepts a run in which refused presentation %d is reported accepted" % (k + 1))
        return info, lines, None
    finally:
        shutil.rmtree(wd, ignore_errors=True)


def run_tgs(run, quick=True):
    """Kerberos5TGS.tla (AS / TGS / referrals, client side): model checked with its weakenings, then bound end to end:
    the real client against simulated KDCs of ten realms with an attacker who replays earlier replies (vh systgs)."""
    wd = vlib.spec_scratch(["system"])
    try:
        info = {"models": {}}
        for cfg, expect in (("MCK5TGS.cfg", None), ("MCK5TGS_nononce.cfg", "DeliveredIsRight"), ("MCK5TGS_unbounded.cfg", "HopsBounded")):
            res = vlib.tlc(wd, "MCK5TGS", cfg=cfg, timeout=1800)
            violated = None
            if res.violation:
                import re
                m = re.search(r"Invariant (\w+) is violated", res.out)
                violated = m.group(1) if m else "?"
            info["models"][cfg] = {"distinct": res.distinct, "violated": violated}
            if violated != expect or (expect is None and (res.rc != 0 or not res.finished)):
                raise vlib.Inconclusive("Kerberos5TGS %s: expected violated invariant %s, got %s\n%s" % (cfg, expect, violated, res.out[-2000:]))
            if expect is None:
                run.add_model(res)
        trace = os.path.join(wd, "trace.ndjson")
        vlib.run_harness(["systgs", "-seed", str(run.seed), "-rounds", "6" if quick else "48", "-out", trace], timeout=2400)
        lines = vlib.read_ndjson(trace)
        res = vlib.tlc(wd, "TraceK5TGS", workers=1, timeout=1200)
        info["events"] = len(lines)
        info["delivered"] = sum(1 for x in lines if x["ev"] == "deliver")
        info["gave_up"] = sum(1 for x in lines if x["ev"] == "giveup")
        info["replayed_replies"] = sum(1 for x in lines if x.get("replayed"))
        info["followed_referrals_max"] = max([x["tgsreqs"] for x in lines if x["ev"] == "deliver"] + [0]) - 1
        if res.violation:
            return info, lines, "a delivered ticket is not the one issued for the service asked for (DeliveredIsRight):\n" + res.out[-1500:]
        if res.rc != 0 or not res.finished:
            raise vlib.Inconclusive("TraceK5TGS failed:\n" + res.out[-3000:])
        rej = res.tags("REJECTED")
        if rej:
            pos = int(rej[0])
            return info, lines, "event %d is not a step of Kerberos5TGS: %s" % (pos, lines[pos - 1])
        if info["delivered"] == 0 or info["gave_up"] == 0 or info["replayed_replies"] == 0 or info["followed_referrals_max"] < 2:
            raise vlib.Inconclusive("system trace vacuous: %s" % info)
        # ---- binding self-test: one delivery reported for another service than the ticket's is not a behaviour
        k = next((i for i, x in enumerate(lines) if x["ev"] == "deliver"), None)
        bad = [dict(x) for x in lines]
        bad[k]["want"] = "HTTP/some.other.service"
        vlib.write_ndjson(trace, bad)
        res2 = vlib.tlc(wd, "TraceK5TGS", workers=1, timeout=1200)
        info["binding_selftest"] = {"corrupted_event": k + 1, "rejected": bool(res2.violation) or bool(res2.tags("REJECTED"))}
        if not info["binding_selftest"]["rejected"]:
            raise vlib.Inconclusive("binding self-test: TraceK5TGS accepts a delivery for another service")
        return info, lines, None
    finally:
        shutil.rmtree(wd, ignore_errors=True)


def run_kpasswd(run, quick=True):
    """KPasswd.tla (RFC 3244 exchange, client side): model checked with its weakening, then bound end to end: the real
    Client.ChangePasswd against a simulated password-change service and an attacker answering in its place (vh kpasswd)."""
    wd = vlib.spec_scratch(["kpasswd"])
    try:
        info = {"models": {}}
        for cfg, expect in (("MCKPasswd.cfg", False), ("MCKPasswd_errorform.cfg", True)):
            res = vlib.tlc(wd, "KPasswd", cfg=cfg, timeout=1200)
            info["models"][cfg] = {"distinct": res.distinct, "violation": bool(res.violation)}
            if bool(res.violation) != expect or (not expect and (res.rc != 0 or not res.finished)):
                raise vlib.Inconclusive("KPasswd %s: expected violation=%s, got %s\n%s" % (cfg, expect, res.violation, res.out[-2000:]))
            if not expect:
                run.add_model(res)
        proved, nobl, pout = vlib.tlapm(wd, "KPasswdProof", timeout=900)
        if not proved:
            raise vlib.Inconclusive("TLAPS does not prove KPasswdProof (Spec => []SuccessIsAuthentic, unbounded core):\n" + pout)
        info["tlaps"] = {"module": "KPasswdProof", "theorem": "Spec => []SuccessIsAuthentic (unbounded requests, subkeys, replies)", "obligations_proved": nobl}
        trace = os.path.join(wd, "trace.ndjson")
        import mitcross
        mexe = mitcross.build_mitref()
        vlib.run_harness(["kpasswd", "-seed", str(run.seed), "-rounds", "6" if quick else "60", "-out", trace] + (["-mitref", mexe] if mexe else []), timeout=2400)
        lines = vlib.read_ndjson(trace)
        res = vlib.tlc(wd, "TraceKPasswd", workers=1, timeout=1200)
        cl = [x for x in lines if x["ev"] == "client"]
        info["events"] = len(lines)
        info["exchanges"] = len(cl)
        info["success"] = sum(1 for x in cl if x["ok"])
        info["mit_client_exchanges"] = sum(1 for x in lines if x["ev"] == "mitclient")
        info["by_reply"] = {m: sum(1 for x in cl if x["reply"] == m) for m in sorted({x["reply"] for x in cl})}
        if res.violation:
            return info, lines, "an invariant of KPasswd (SuccessIsAuthentic / ClientPasswordWasApplied / DatabaseFollowsRequests) is violated by the recorded run:\n" + res.out[-1500:]
        if res.rc != 0 or not res.finished:
            raise vlib.Inconclusive("TraceKPasswd failed:\n" + res.out[-3000:])
        rej = res.tags("REJECTED")
        if rej:
            pos = int(rej[0])
            return info, lines, "event %d is not a step of KPasswd: %s" % (pos, lines[pos - 1])
        if info["success"] == 0 or len(info["by_reply"]) < 9:
            raise vlib.Inconclusive("kpasswd trace vacuous: %s" % info)
        # ---- binding self-test: an attacker's reply reported as success is not a behaviour
        k = next((i for i, x in enumerate(lines) if x["ev"] == "client" and x["reply"] == "reflected"), None)
        bad = [dict(x) for x in lines]
        bad[k]["ok"] = True
        bad[k]["pwAfter"] = bad[k]["new"]
        vlib.write_ndjson(trace, bad)
        res2 = vlib.tlc(wd, "TraceKPasswd", workers=1, timeout=1200)
        info["binding_selftest"] = {"corrupted_event": k + 1, "rejected": bool(res2.violation) or bool(res2.tags("REJECTED"))}
        if not info["binding_selftest"]["rejected"]:
            raise vlib.Inconclusive("binding self-test: TraceKPasswd accepts a reflected reply reported as success")
        return info, lines, None
    finally:
        shutil.rmtree(wd, ignore_errors=True)


def main(tier):
    run = vlib.Run("SYS", "model_checking", tier)
    vlib.build_harness()
    info, lines, problem = run_sys(run, tier != "thorough")
    print(info, problem)
    raise SystemExit(1 if problem else 0)
