"""C10 - tickets obtained and cached by the client are the right ones and still valid."""
import os, shutil, json
import vlib
from cryptocommon import line_trace


def main(tier):
    run = vlib.Run("C10", "model_checking", tier)
    vlib.build_harness()
    wd = vlib.spec_scratch(["c10", "crypto"])
    try:
        res = vlib.tlc(wd, "ClientTickets", cfg="MCTickets.cfg", timeout=900)
        if res.violation or res.rc != 0 or not res.finished:
            raise vlib.Inconclusive("ClientTickets model fails its own invariants:\n" + res.out[-3000:])
        run.add_model(res)
        trace = os.path.join(wd, "trace.ndjson")
        n = 48 if not run.thorough else 480
        lines = []
        for batch in range(1 if not run.thorough else 4):
            vlib.run_harness(["c10", "-seed", str(run.seed * 10 + batch), "-n", str(n if not run.thorough else n // 4), "-out", trace, "-par", "64"], timeout=3000)
            lines += vlib.read_ndjson(trace)
        vlib.write_ndjson(trace, lines)
        ops = [o for x in lines for o in x["ops"]]
        run.cov["evaluations"] = len(ops)
        gets = [o for o in ops if o["op"].startswith("G")]
        run.extra["operations"] = {"get_ok": sum(1 for o in gets if o["ok"]), "get_err": sum(1 for o in gets if not o["ok"]),
                                   "login": sum(1 for o in ops if o["op"] == "L"), "wait": sum(1 for o in ops if o["op"] == "W")}
        run.extra["kdc_requests"] = sum(len(x["reqs"]) for x in lines)
        run.extra["tickets_issued"] = sum(len(x["issued"]) for x in lines)
        run.extra["renewals_seen"] = sum(1 for x in lines for b in x["optbits"] if b["renew"])
        bad = line_trace(run, wd, "TraceC10", len(lines), timeout=3000)
        if not bad and run.extra["operations"]["get_ok"] == 0:
            raise vlib.Inconclusive("vacuous: no service ticket was obtained")
        run.cov["distinct_nontrivial"] = len({json.dumps([x["cfg"], x["word"]], sort_keys=True) for x in lines if any(o["op"].startswith("G") for o in x["ops"])})
        run.cov["rule"] = ("seeded scenarios = configuration (credential kind, etype list, pre-authentication + hint order, forwardable/proxiable/"
                           "canonicalize, renew_lifetime, ticket_lifetime, noaddresses, single/cross realm, referral chain 0..8, legal KDC variants: "
                           "omitted starttime, enc-part tag 25/26, etype choice, renewable or not) x a word of operations (login, get for repeated/new/"
                           "cross-realm/referred SPNs, waits across ticket and TGT expiry, destroy) run in scaled real time (tickets 3 s, TGT 6 s) "
                           "against the simulated KDC; distinct = distinct (configuration, word) with at least one get")
        for x in lines[:2]:
            run.sample({"cfg": x["cfg"], "word": x["word"], "ops": [{k: o[k] for k in ("op", "ok", "t0", "t1", "spn", "tkt")} for o in x["ops"]],
                        "issued": [{k: i[k] for k in ("id", "kind", "spn", "end", "at", "renewal")} for i in x["issued"]][:6]})
        for i in bad:
            x = lines[i - 1]
            facts = {"word": x["word"], "renewable": x["cfg"]["renewable"], "chain": x["cfg"]["chain"], "ops_ok": [o["ok"] for o in x["ops"]],
                     "panic": any(o["panic"] for o in x["ops"])}
            run.violation(facts, {"line": x})
        run.extra["rejected_lines"] = len(bad)
        # ---- the system specification of the two-stage exchange, bound end to end (real client, ten simulated realms, replaying attacker)
        import sysk5
        info, slines, problem = sysk5.run_tgs(run, quick=not run.thorough)
        run.extra["system_spec_tgs"] = info
        if problem:
            run.violation({"system_trace": True}, {"problem": problem, "events": slines[:400]})
        else:
            run.cov["traces_validated_against_impl"] += info.get("events", 0)
            run.cov["evaluations"] += info["delivered"] + info["gave_up"]
        # ---- the Login state machine (ASExchange.tla): pre-authentication negotiation, client referrals, errors; scripted KDCs
        ainfo, aproblems = sysk5.run_as(run, quick=not run.thorough)
        run.extra["system_spec_as"] = ainfo
        for text, facts, rnd in aproblems:
            run.violation(facts, {"problem": text, "events": rnd})
        run.cov["traces_validated_against_impl"] += ainfo["clients"] - len(aproblems)
        run.cov["evaluations"] += ainfo["logins"]
        run.assumptions += ["'any RFC 4120-conformant KDC' is approximated by the legal variants of one simulated KDC",
                            "Kerberos times have 1 s resolution: validity is ambiguous within 1 s of a ticket's end and accepted either way",
                            "a referral chain of exactly the bound + 1 (7) may succeed or fail; DNS discovery is not modelled"]
    finally:
        shutil.rmtree(wd, ignore_errors=True)
    run.finish(exhaustive=False)


def replay(rep):
    main(rep.get("tier", "quick"))
