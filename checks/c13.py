"""C13 - Kerberos and SPNEGO messages survive encode/decode and match the RFC ASN.1.

Role B: the driver draws seeded abstract message values over the type table exported by the specification (KrbASN1.tla),
TLC encodes them with the specification's own DER encoder; the harness populates gokrb5's structs from the same values,
calls the types' own Marshal / Unmarshal (the latter on the SPECIFICATION's bytes) and the operations "in between"
(decrypting tickets, authenticators, KRB-PRIV and KDC-REP parts); role C: TLC validates every recorded line."""
import os, re, shutil, json, random, copy, time, concurrent.futures
import vlib

MASK = (1 << 64) - 1


def i64(n):
    return "%016x" % (n & MASK)


def hs(s):
    return s.encode("latin1").hex() if isinstance(s, str) else bytes(s).hex()


# ----------------------------------------------------------------------------- the MIT reference samples (ktest.c)

def mit_samples():
    """abstract values of MIT krb5's src/tests/asn.1/ktest.c samples, written independently of any encoder, keyed by the
    name of the reference encoding in /repo/v8/test/testdata/test_vectors.go"""
    T = "19940610060317"
    R = hs("ATHENA.MIT.EDU")
    pn = {"NameType": i64(1), "NameString": [hs("hftsai"), hs("extra")]}
    ed = {"EType": i64(0), "KVNO": i64(5), "Cipher": hs("krbASN.1 test message")}
    key = {"KeyType": i64(1), "KeyValue": hs("12345678")}
    ck = {"CksumType": i64(1), "Checksum": hs("1234")}
    ad = [{"ADType": i64(1), "ADData": hs("foobar")}] * 2
    pa = [{"PADataType": i64(13), "PADataValue": hs("pa-data")}] * 2
    addr = {"AddrType": i64(2), "Address": "12d00023"}
    fl = lambda w: [i for i in range(32) if (w >> (31 - i)) & 1]
    F98, F90, F5C = fl(0xfedcba98), fl(0xfedcba90), fl(0xfe5cba98)
    tkt = {"TktVNO": i64(5), "Realm": R, "SName": pn, "EncPart": ed}
    lr = [{"LRType": i64(-5), "LRValue": T}] * 2
    tr = {"TRType": i64(1), "Contents": hs("EDU,MIT.,ATHENA.,WASHINGTON.EDU,CS.")}
    body = {"KDCOptions": F90, "CName": pn, "Realm": R, "SName": pn, "From": T, "Till": T, "RTime": T, "Nonce": i64(42),
            "EType": [i64(0), i64(1)], "Addresses": [addr, addr], "EncAuthData": ed, "AdditionalTickets": [tkt, tkt]}
    body2 = {"KDCOptions": F98, "Realm": R, "Till": T, "Nonce": i64(42), "EType": [i64(0), i64(1)], "AdditionalTickets": [tkt, tkt]}
    body3 = {"KDCOptions": F90, "Realm": R, "SName": pn, "Till": T, "Nonce": i64(42), "EType": [i64(0), i64(1)]}
    safeb = {"UserData": hs("krb5data"), "Timestamp": T, "Usec": i64(123456), "SequenceNumber": i64(17), "SAddress": addr, "RAddress": addr}
    safeb0 = {"UserData": hs("krb5data"), "SAddress": addr}
    encrep = {"Key": key, "LastReqs": lr, "Nonce": i64(42), "KeyExpiration": T, "Flags": F98, "AuthTime": T, "StartTime": T,
              "EndTime": T, "RenewTill": T, "SRealm": R, "SName": pn, "CAddr": [addr, addr]}
    encrep0 = {"Key": key, "LastReqs": lr, "Nonce": i64(42), "Flags": F5C, "AuthTime": T, "EndTime": T, "SRealm": R, "SName": pn}
    err = {"PVNO": i64(5), "MsgType": i64(30), "CTime": T, "Cusec": i64(123456), "STime": T, "Susec": i64(123456), "ErrorCode": i64(60),
           "CRealm": R, "CName": pn, "Realm": R, "SName": pn, "EText": hs("krb5data"), "EData": hs("krb5data")}
    err0 = {k: err[k] for k in ("PVNO", "MsgType", "Cusec", "STime", "Susec", "ErrorCode", "Realm", "SName")}
    S = []
    a = lambda name, typ, v: S.append({"name": name, "type": typ, "v": v})
    auth = {"AVNO": i64(5), "CRealm": R, "CName": pn, "Cksum": ck, "Cusec": i64(123456), "CTime": T, "SubKey": key,
            "SeqNumber": i64(17), "AuthorizationData": ad}
    auth0 = {k: auth[k] for k in ("AVNO", "CRealm", "CName", "Cusec", "CTime")}
    a("MarshaledKRB5authenticator", "Authenticator", auth)
    a("MarshaledKRB5authenticatorOptionalsNULL", "Authenticator", auth0)
    a("MarshaledKRB5ticket", "Ticket", tkt)
    a("MarshaledKRB5keyblock", "EncryptionKey", key)
    etp = {"Flags": F98, "Key": key, "CRealm": R, "CName": pn, "Transited": tr, "AuthTime": T, "StartTime": T, "EndTime": T,
           "RenewTill": T, "CAddr": [addr, addr], "AuthorizationData": ad}
    a("MarshaledKRB5enc_tkt_part", "EncTicketPart", etp)
    a("MarshaledKRB5enc_tkt_partOptionalsNULL", "EncTicketPart", {k: etp[k] for k in ("Flags", "Key", "CRealm", "CName", "Transited", "AuthTime", "EndTime")})
    a("MarshaledKRB5enc_kdc_rep_part", "EncTGSRepPart", encrep)
    a("MarshaledKRB5enc_kdc_rep_partOptionalsNULL", "EncTGSRepPart", encrep0)
    for nm, typ, mt in (("as", "AS", 11), ("tgs", "TGS", 13)):
        rep = {"PVNO": i64(5), "MsgType": i64(mt), "PAData": pa, "CRealm": R, "CName": pn, "Ticket": tkt, "EncPart": ed}
        a("MarshaledKRB5%s_rep" % nm, typ + "Rep", rep)
        a("MarshaledKRB5%s_repOptionalsNULL" % nm, typ + "Rep", {k: v for k, v in rep.items() if k != "PAData"})
    a("MarshaledKRB5ap_req", "APReq", {"PVNO": i64(5), "MsgType": i64(14), "APOptions": F98, "Ticket": tkt, "EncryptedAuthenticator": ed})
    a("MarshaledKRB5ap_rep", "APRep", {"PVNO": i64(5), "MsgType": i64(15), "EncPart": ed})
    a("MarshaledKRB5ap_rep_enc_part", "EncAPRepPart", {"CTime": T, "Cusec": i64(123456), "Subkey": key, "SequenceNumber": i64(17)})
    a("MarshaledKRB5ap_rep_enc_partOptionalsNULL", "EncAPRepPart", {"CTime": T, "Cusec": i64(123456)})
    for nm, typ, mt in (("as", "AS", 10), ("tgs", "TGS", 12)):
        a("MarshaledKRB5%s_req" % nm, typ + "Req", {"PVNO": i64(5), "MsgType": i64(mt), "PAData": pa, "ReqBody": body})
        a("MarshaledKRB5%s_reqOptionalsNULLexceptsecond_ticket" % nm, typ + "Req", {"PVNO": i64(5), "MsgType": i64(mt), "ReqBody": body2})
        a("MarshaledKRB5%s_reqOptionalsNULLexceptserver" % nm, typ + "Req", {"PVNO": i64(5), "MsgType": i64(mt), "ReqBody": body3})
    a("MarshaledKRB5kdc_req_body", "KDCReqBody", body)
    a("MarshaledKRB5kdc_req_bodyOptionalsNULLexceptsecond_ticket", "KDCReqBody", body2)
    a("MarshaledKRB5kdc_req_bodyOptionalsNULLexceptserver", "KDCReqBody", body3)
    a("MarshaledKRB5safe", "KRBSafe", {"PVNO": i64(5), "MsgType": i64(20), "SafeBody": safeb, "Cksum": ck})
    a("MarshaledKRB5safeOptionalsNULL", "KRBSafe", {"PVNO": i64(5), "MsgType": i64(20), "SafeBody": safeb0, "Cksum": ck})
    a("MarshaledKRB5priv", "KRBPriv", {"PVNO": i64(5), "MsgType": i64(21), "EncPart": ed})
    a("MarshaledKRB5enc_priv_part", "EncKrbPrivPart", safeb)
    a("MarshaledKRB5enc_priv_partOptionalsNULL", "EncKrbPrivPart", safeb0)
    a("MarshaledKRB5cred", "KRBCred", {"PVNO": i64(5), "MsgType": i64(22), "Tickets": [tkt, tkt], "EncPart": ed})
    ci = {"Key": key, "PRealm": R, "PName": pn, "Flags": F98, "AuthTime": T, "StartTime": T, "EndTime": T, "RenewTill": T, "SRealm": R,
          "SName": pn, "CAddr": [addr, addr]}
    a("MarshaledKRB5enc_cred_part", "EncKrbCredPart", {"TicketInfo": [ci, ci], "Nouce": i64(42), "Timestamp": T, "Usec": i64(123456),
                                                       "SAddress": addr, "RAddress": addr})
    a("MarshaledKRB5enc_cred_partOptionalsNULL", "EncKrbCredPart", {"TicketInfo": [{"Key": key}, ci]})
    a("MarshaledKRB5error", "KRBError", err)
    a("MarshaledKRB5errorOptionalsNULL", "KRBError", err0)
    a("MarshaledKRB5authorization_data", "AuthorizationData", ad)
    a("MarshaledKRB5padata_sequence", "PADataSequence", pa)
    a("MarshaledKRB5padataSequenceEmpty", "PADataSequence", [])
    a("MarshaledKRB5enc_data", "EncryptedData", ed)
    a("MarshaledKRB5enc_dataMSBSetkvno", "EncryptedData", dict(ed, KVNO=i64(-16777216)))   # MIT writes 0xFF000000 as a signed value
    a("MarshaledKRB5enc_dataKVNONegOne", "EncryptedData", dict(ed, KVNO=i64(-1)))
    a("MarshaledChangePasswdData", "ChangePasswdData", {"NewPasswd": hs("newpassword"), "TargName": {"NameType": i64(1), "NameString": [hs("testuser1")]},
                                                        "TargRealm": hs("TEST.GOKRB5")})
    return S


def reference_vectors():
    src = open(os.path.join(vlib.REPO_MOD, "test", "testdata", "test_vectors.go")).read()
    return dict(re.findall(r'(\w+)\s*=\s*"([0-9A-Fa-f]+)"', src))


# ----------------------------------------------------------------------------- the value generator (driven by schema.json)

B_I32 = [0, 1, -1, 127, 128, -128, -129, 255, 256, 32767, 32768, -32768, -32769, 65535, 65536, 2 ** 31 - 1, -2 ** 31]
B_U32 = [0, 1, 127, 128, 255, 256, 32767, 32768, 65535, 65536, 2 ** 24 - 1, 2 ** 24, 2 ** 31 - 1, 2 ** 31, 2 ** 32 - 1]
B_USEC = [0, 1, 127, 128, 255, 256, 32767, 32768, 65535, 65536, 999999]
STRLENS = [0, 1, 2, 127, 128, 255, 256, 300]
TIMES = ["19700101000000", "19940610060317", "20000229235959", "20380119031407", "20380119031408", "21060207062816", "99991231235959",
         "00010101000001"]
OIDS = [[1, 2, 840, 113554, 1, 2, 2], [1, 2, 840, 48018, 1, 2, 2], [1, 3, 6, 1, 5, 5, 2], [1, 3, 6, 1, 4, 1, 311, 2, 2, 10],
        [2, 999, 3], [0, 0], [1, 39, 127, 128, 16383, 16384, 2097151, 2097152, 268435455], [2, 5]]
OID_KRB5 = OIDS[0]
BITLENS = [1, 7, 8, 9, 31, 32, 33, 40]


def rtext(rnd, n):
    return bytes(rnd.choice(b"abcdefghijklmnopqrstuvwxyzABCDEFGHIJKLMNOPQRSTUVWXYZ0123456789.-_/@ ") for _ in range(n)).hex()


def rbytes(rnd, n):
    return bytes(rnd.getrandbits(8) for _ in range(n)).hex()


def rbits(rnd, n):
    b = bytearray(rnd.getrandbits(8) for _ in range((n + 7) // 8))
    if n % 8:
        b[-1] &= (0xFF << (8 - n % 8)) & 0xFF          # DER: unused bits are zero
    return {"Bytes": bytes(b).hex(), "BitLength": n}


def bounds(kind):
    return {"i32": B_I32, "u32": B_U32, "usec": B_USEC, "const": [kind["c"]]}[kind["r"]]


def base(kind, rnd, wild=False, drop=0.0):
    """a value of the kind.  wild = False: nothing zero or empty, small typical values, every OPTIONAL field present
    (or absent with probability drop); wild = True: OPTIONAL fields present with probability 1/2 (zero/empty with
    probability 1/12), boundary values anywhere."""
    k = kind["k"]
    if k == "int":
        if kind["r"] == "const":
            return i64(kind["c"])
        if wild and rnd.random() < 0.5:
            return i64(rnd.choice(bounds(kind)))
        return i64({"i32": rnd.choice([1, 2, 3, 10, 17, 18, 23, -5, 1000, -133]), "u32": rnd.randrange(1, 5000),
                    "usec": rnd.randrange(1, 1000000)}[kind["r"]])
    if k == "gstr":
        return rtext(rnd, rnd.choice(STRLENS) if wild and rnd.random() < 0.3 else rnd.randrange(1, 14))
    if k == "oct":
        return rbytes(rnd, rnd.choice(STRLENS) if wild and rnd.random() < 0.3 else rnd.randrange(1, 25))
    if k == "time":
        return rnd.choice(TIMES) if wild else rnd.choice(TIMES[:5])
    if k == "kflags":
        return sorted(rnd.sample(range(32), rnd.randrange(0, 8)))
    if k == "bits":
        return rbits(rnd, rnd.choice(BITLENS))
    if k == "oid":
        return list(rnd.choice(OIDS))
    if k == "enum":
        return rnd.randrange(0, 4)
    if k == "seqof":
        n = rnd.choice([0, 1, 1, 2, 3, 4]) if wild else rnd.choice([1, 2])
        return [base(kind["e"], rnd, wild, drop) for _ in range(n)]
    if k == "struct":
        v = {}
        for f in kind["fs"]:
            if f["opt"] and not wild and rnd.random() < drop:
                continue
            if f["opt"] and wild:
                r = rnd.random()
                if r < 0.5:
                    continue
                if r < 0.58:
                    v[f["name"]] = zero(f["kind"])
                    continue
            v[f["name"]] = base(f["kind"], rnd, wild, drop)
        return v
    if k in ("app", "ctx"):
        return base(kind["of"], rnd, wild, drop)
    raise ValueError(k)


def zero(kind):
    """the zero / empty value of the kind (an OPTIONAL field transmitted with it is the caveat of the property)"""
    k = kind["k"]
    if k == "int":
        return i64(0)
    if k in ("gstr", "oct"):
        return ""
    if k == "time":
        return "00010101000000"
    if k == "kflags":
        return []
    if k == "bits":
        return {"Bytes": "", "BitLength": 0}
    if k == "oid":
        return [0, 0]
    if k == "enum":
        return 0
    if k == "seqof":
        return []
    if k == "struct":
        return {f["name"]: zero(f["kind"]) for f in kind["fs"] if not f["opt"]}
    return zero(kind["of"])


def sites(kind, path=()):
    """every place of a value of the kind where a single-site variation applies: (path, kind, optional?)"""
    k = kind["k"]
    if k in ("app", "ctx"):
        yield from sites(kind["of"], path)
        return
    if k == "struct":
        for f in kind["fs"]:
            p = path + (f["name"],)
            if f["opt"]:
                yield (p, f["kind"], "opt")
            yield from sites(f["kind"], p)
        return
    if k == "seqof":
        yield (path, kind, "len")
        yield from sites(kind["e"], path + (0,))
        return
    if not (k == "int" and kind["r"] == "const"):
        yield (path, kind, "leaf")


def setp(v, path, x):
    for p in path[:-1]:
        v = v[p]
    v[path[-1]] = x


def delp(v, path):
    for p in path[:-1]:
        v = v[p]
    del v[path[-1]]


def getp(v, path):
    for p in path:
        v = v[p]
    return v


def variants(kind, b, rnd, long_strings):
    """all single-site variations of the base value b: (label, value)"""
    out = []
    for path, sk, what in sites(kind):
        lab = "/".join(str(p) for p in path)
        try:
            cur = getp(b, path)
        except (KeyError, IndexError):
            continue
        def var(x, tag):
            v = {"_": copy.deepcopy(b)}
            setp(v, ("_",) + path, x)
            out.append(("%s:%s" % (lab, tag), v["_"]))
        if what == "opt":
            v = copy.deepcopy(b)
            delp(v, path)
            out.append((lab + ":absent", v))
            var(zero(sk), "zero")
            continue
        if what == "len":
            for n in range(0, 5):
                if n != len(cur):
                    var([base(sk["e"], rnd) for _ in range(n)], "n=%d" % n)
            continue
        k = sk["k"]
        if k == "int":
            for x in bounds(sk):
                var(i64(x), str(x))
        elif k in ("gstr", "oct"):
            for n in STRLENS + (long_strings if len(path) <= 2 else []):
                var(rtext(rnd, n) if k == "gstr" else rbytes(rnd, n), "len=%d" % n)
        elif k == "time":
            for t in TIMES:
                var(t, t)
        elif k == "kflags":
            for i in range(32):
                var([i], "bit%d" % i)
            var([], "none")
            var(list(range(32)), "all")
        elif k == "bits":
            for n in BITLENS:
                var(rbits(rnd, n), "bits=%d" % n)
            var({"Bytes": "ff" * ((n + 7) // 8 - 1) + "%02x" % ((0xFF << ((8 - n % 8) % 8)) & 0xFF), "BitLength": n}, "ones")
        elif k == "oid":
            for o in OIDS:
                var(list(o), ".".join(map(str, o)))
        elif k == "enum":
            for x in range(0, 4):
                var(x, str(x))
    return out


# ----------------------------------------------------------------------------- cases

# the types of the property (both directions, where gokrb5 has both) and the decode-only / encode-only types next to them
TYPES = ["Ticket", "Authenticator", "EncryptedData", "ASReq", "TGSReq", "KDCReqBody", "ASRep", "TGSRep", "EncASRepPart", "EncTGSRepPart",
         "APReq", "KRBError", "KRBPriv", "ChangePasswdData", "NegTokenInit", "NegTokenResp",
         "EncTicketPart", "EncKrbPrivPart", "APRep", "EncAPRepPart", "KRBSafe", "KRBCred", "EncKrbCredPart", "PADataSequence", "AuthorizationData", "EncryptionKey",
         "Checksum", "PAData"]
PROPERTY_TYPES = TYPES[:16]
KEYLEN = {16: 24, 17: 16, 18: 32, 19: 16, 20: 32, 23: 16}


def token_cases(S, rnd, n):
    """SPNEGO (RFC 4178 / 2743) and KRB5 (RFC 4121 4.1) initial-context-token framing around generated inner values"""
    out = []
    for i in range(n):
        wild = i % 3 == 2
        if i % 2 == 0:
            nti = base(S["NegTokenInit"], rnd, wild, drop=0.3)
            if i % 4 == 0:      # the mechanism list a Kerberos initiator sends
                nti["MechTypes"] = [OID_KRB5, OIDS[1]]
            out.append(("SPNEGOToken", "init%d" % i, {"Init": True, "Resp": False, "NegTokenInit": nti}))
        else:
            out.append(("SPNEGOToken", "resp%d" % i, {"Init": False, "Resp": True, "NegTokenResp": base(S["NegTokenResp"], rnd, wild, drop=0.3)}))
        tok, typ = [("0100", "APReq"), ("0100", "APReq"), ("0300", "KRBError"), ("0200", "APRep")][i % 4]
        out.append(("KRB5Token", "tok%s-%d" % (tok, i), {"OID": OID_KRB5, "TokID": tok, "Msg": base(S[typ], rnd, wild, drop=0.3)}))
    return out


def build_cases(S, rnd, thorough):
    cases = []
    def add(typ, label, v):
        cases.append({"id": len(cases) + 1, "type": typ, "label": label, "v": v})
    for typ in TYPES:
        kind = S[typ]
        for nb in range(5 if thorough else 1):
            # a base value and ALL its single-site variations: each OPTIONAL absent / zero, each integer at each boundary,
            # each string length, each flag bit, 0..4 elements in each sequence (name components, additional tickets), ...
            b = base(kind, rnd)
            add(typ, "base%d" % nb, b)
            vs = variants(kind, b, rnd, [70000] if nb == 0 else [])
            if not thorough and typ not in PROPERTY_TYPES:
                rnd.shuffle(vs)               # gokrb5 only decodes (or only encodes) these: a seeded sample in the quick tier
                vs = vs[:40]
            for lab, v in vs:
                add(typ, "b%d:%s" % (nb, lab), v)
        for i in range(400 if thorough else 12):
            add(typ, "wild%d" % i, base(kind, rnd, wild=True))
        for i in range(150 if thorough else 6):
            add(typ, "drop%d" % i, base(kind, rnd, drop=0.5))
    for typ, lab, v in token_cases(S, rnd, 1000 if thorough else 40):
        add(typ, lab, v)
    return cases


def build_bigs(S, rnd, thorough):
    """values with one octet string of about 2^24 octets: the encodings need four length octets.  The lengths straddle the
    boundary: the string itself / only the enclosing SEQUENCE / nothing reaches 2^24"""
    out = []
    todo = [("EncryptedData", "Cipher", 1 << 24)]
    if thorough:
        todo += [("EncryptedData", "Cipher", (1 << 24) - 1), ("EncryptedData", "Cipher", (1 << 24) - 40), ("KRBError", "EData", (1 << 24) + 1),
                 ("NegTokenInit", "MechTokenBytes", 1 << 24)]
    for typ, field, n in todo:
        v = base(S[typ], rnd)
        v[field] = ""
        v.pop("MechListMIC", None)          # the long field is the last one
        f = rnd.randrange(1, 256)
        out.append({"id": len(out) + 1, "type": typ, "v": v, "field": field, "n": n, "fill": f, "fillhex": "%02x" % f})
    return out


def enc_data(et, kvno):
    v = {"EType": i64(et), "Cipher": ""}
    if kvno:
        v["KVNO"] = i64(kvno)
    return v


def build_ops(S, rnd, thorough):
    """messages with encrypted parts whose plaintext the specification encodes; the library decrypts and marshals again"""
    ops = []
    ets = [17, 18, 23, 16, 19, 20]
    def key(et):
        return bytes(rnd.getrandbits(8) for _ in range(KEYLEN[et])).hex()
    def part(path, typ, v, et, usage, kvno, k=None):
        return {"path": path, "type": typ, "v": v, "key": k or key(et), "et": et, "usage": usage, "kvno": kvno, "plain": ""}
    def ticket(et, kvno):
        t = base(S["Ticket"], rnd)
        t["EncPart"] = enc_data(et, kvno)
        t["SName"]["NameString"] = [rtext(rnd, 4).replace("2f", "61").replace("40", "61"), rtext(rnd, 9).replace("2f", "61").replace("40", "61")]
        return t
    reps = 8 if thorough else 2
    for r in range(reps):
        for i, et in enumerate(ets):
            kvno = rnd.randrange(1, 256)
            etp = base(S["EncTicketPart"], rnd, drop=0.4)
            ops.append({"op": "ticket" if (i + r) % 2 == 0 else "ticket_kt", "type": "Ticket", "v": ticket(et, kvno),
                        "parts": [part(["EncPart"], "EncTicketPart", etp, et, 2, kvno)]})
            # AP-REQ: ticket sealed with the service key, authenticator with the session key inside the ticket
            et2 = ets[(i + 1 + r) % len(ets)]
            sk = key(et2)
            etp = base(S["EncTicketPart"], rnd, drop=0.4)
            etp["Key"] = {"KeyType": i64(et2), "KeyValue": sk}
            ap = base(S["APReq"], rnd)
            ap["Ticket"] = ticket(et, kvno)
            ap["EncryptedAuthenticator"] = enc_data(et2, 0)
            ops.append({"op": "apreq" if (i + r) % 3 else "apreq_verify", "type": "APReq", "v": ap,
                        "parts": [part(["Ticket", "EncPart"], "EncTicketPart", etp, et, 2, kvno),
                                  part(["EncryptedAuthenticator"], "Authenticator", base(S["Authenticator"], rnd, drop=0.4), et2, 11, 0, sk)]})
            kp = base(S["KRBPriv"], rnd)
            kp["EncPart"] = enc_data(et, 0)
            ops.append({"op": "krbpriv", "type": "KRBPriv", "v": kp,
                        "parts": [part(["EncPart"], "EncKrbPrivPart", base(S["EncKrbPrivPart"], rnd, drop=0.4), et, 13, 0)]})
            tr = base(S["TGSRep"], rnd, drop=0.4)
            tr["EncPart"] = enc_data(et, 0)
            ops.append({"op": "tgsrep", "type": "TGSRep", "v": tr,
                        "parts": [part(["EncPart"], "EncTGSRepPart" if i % 2 == 0 else "EncASRepPart", base(S["EncTGSRepPart"], rnd, drop=0.4), et, 8, 0)]})
            ar = base(S["ASRep"], rnd, drop=0.4)
            ar["EncPart"] = enc_data(et, kvno)
            ar["CName"]["NameString"] = [rtext(rnd, 6)]
            ops.append({"op": "asrep", "type": "ASRep", "v": ar,
                        "parts": [part(["EncPart"], "EncASRepPart" if i % 2 == 0 else "EncTGSRepPart", base(S["EncASRepPart"], rnd, drop=0.4), et, 3, kvno)]})
    for i, o in enumerate(ops):
        o["id"] = i + 1
    return ops


def build_lens(rnd, thorough):
    ns = list(range(0, 301))
    for k in range(0, 25):
        ns += [n for n in (2 ** k - 1, 2 ** k, 2 ** k + 1) if n >= 0]
    step = (1 << 24) // (200000 if thorough else 3000)
    ns += [min(i + rnd.randrange(step), 1 << 24) for i in range(0, 1 << 24, step)]
    ns = sorted(set(ns))
    B = 1000
    return [{"ns": ns[i:i + B]} for i in range(0, len(ns), B)]


def whys(res):
    """{line: [failed clause names]} from the WHY lines of TraceC13"""
    w = {}
    for m in re.finditer(r'^<<"WHY", (\d+), "([^"]*)">>$', res.out, re.M):
        w.setdefault(int(m.group(1)), []).append(m.group(2))
    return w


def main(tier):
    run = vlib.Run("C13", "exploration", tier)
    vlib.build_harness()
    wd = vlib.spec_scratch(["c13", "crypto"])
    keep = os.environ.get("VERIF_KEEP")
    try:
        rnd = random.Random(run.seed)
        # ---- role A: the encoding rules against their declarative definitions, exhaustively over 0..MaxN and the powers of two
        if run.thorough:
            cfg = os.path.join(wd, "MCDER.cfg")
            txt = open(cfg).read().replace("MaxN = 20000", "MaxN = 300000")
            open(cfg, "w").write(txt)
        mc = vlib.tlc(wd, "MCDER", timeout=1500)
        if mc.violation or mc.rc != 0 or not mc.finished:
            raise vlib.Inconclusive("DER.tla fails its own theorems:\n" + mc.out[-3000:])
        run.add_model(mc)
        run.extra["der_model_states"] = mc.distinct
        vlib.log("[C13] MCDER %.1fs (%d states)" % (mc.wall, mc.distinct))
        # ---- the specification against independent data: MIT's reference encodings, X.690's examples; type table export
        ref = reference_vectors()
        mit = mit_samples()
        for s in mit:
            s["ref"] = ref[s["name"]].lower()
        vlib.write_ndjson(os.path.join(wd, "mit.ndjson"), mit)
        st = vlib.tlc_or_die(wd, "SelfC13", workers=1, timeout=600)
        vlib.log("[C13] SelfC13 %.1fs" % st.wall)
        if st.tags("VECTORFAIL") or (st.tags("SAMPLES") or ["0"])[0] != str(len(mit)):
            raise vlib.Inconclusive("the specification does not reproduce its reference vectors: %s" % st.tags("VECTORFAIL")[:10])
        run.extra["spec_validated_against"] = "%d MIT krb5 reference encodings of %d types (encode byte for byte, decode to the sample value), X.690 examples" % (
            len(mit), len({s["type"] for s in mit}))
        S = json.load(open(os.path.join(wd, "schema.json")))
        # ---- role B
        cases = build_cases(S, rnd, run.thorough)
        ops = build_ops(S, rnd, run.thorough)
        lens = build_lens(rnd, run.thorough)
        bigs = build_bigs(S, rnd, run.thorough)
        # the work is split over several TLC processes (the evaluation of ASSUMEs is single-threaded): shard 0 takes the big
        # cases, the operation cases and the lengths, the codec cases are dealt round robin to the others
        nsh = max(2, min(8, vlib.NCPU // 2))
        def shard_of(c):
            return 1 + c["id"] % (nsh - 1)
        for sh in range(nsh):
            def w(stem, rows):
                vlib.write_ndjson(os.path.join(wd, "%s_%d.ndjson" % (stem, sh)), rows)
            w("cases", [{"id": c["id"], "type": c["type"], "v": c["v"]} for c in cases if shard_of(c) == sh])
            w("ops", ops if sh == 0 else [])
            w("lens", lens if sh == 0 else [])
            w("bigs", bigs if sh == 0 else [])
            open(os.path.join(wd, "GenC13_%d.cfg" % sh), "w").write("CONSTANT Shard = %d\nINIT Init\nNEXT Next\n" % sh)
        t_g = time.time()
        with concurrent.futures.ThreadPoolExecutor(nsh) as ex:
            gs = list(ex.map(lambda sh: vlib.tlc_or_die(wd, "GenC13", cfg="GenC13_%d.cfg" % sh, workers=1, timeout=3000, xmx="6g"), range(nsh)))
        vlib.log("[C13] GenC13 x %d %.1fs (%d codec cases, %d ops, %d length batches, %d big; per process %s)" % (
            nsh, time.time() - t_g, len(cases), len(ops), len(lens), len(bigs), " ".join("%.0f" % g.wall for g in gs)))
        sf = [v for g in gs for v in g.tags("SPECFAIL")]
        if sf:
            raise vlib.Inconclusive("the specification's decoder does not invert its encoder on cases %s" % sf[:10])
        def rd(stem, sh):
            return vlib.read_ndjson(os.path.join(wd, "%s_%d.ndjson" % (stem, sh)))
        co = {x["id"]: x["spec"] for sh in range(nsh) for x in rd("cases_out", sh)}
        oo, lo, bo = rd("ops_out", 0), rd("lens_out", 0), rd("bigs_out", 0)
        if sorted(co) != [c["id"] for c in cases] or len(oo) != len(ops) or len(lo) != len(lens) or len(bo) != len(bigs):
            raise vlib.Inconclusive("GenC13 produced short files")
        vlib.write_ndjson(os.path.join(wd, "bigs_enc.ndjson"), [dict(b, head=x["head"]) for b, x in zip(bigs, bo)])
        for c in cases:
            c["spec"] = co[c["id"]]
        for o, x in zip(ops, oo):
            for p, pl in zip(o["parts"], x["plains"]):
                p["plain"] = pl
        for l, x in zip(lens, lo):
            l["hdrs"] = x["hdrs"]
        vlib.write_ndjson(os.path.join(wd, "enc.ndjson"), [{"id": c["id"], "type": c["type"], "v": c["v"], "spec": c["spec"]} for c in cases])
        vlib.write_ndjson(os.path.join(wd, "ops_enc.ndjson"), ops)
        vlib.write_ndjson(os.path.join(wd, "lens_enc.ndjson"), lens)
        run.extra["spec_selfcheck"] = "Dec(Enc(v)) = v held on all %d generated values" % len(cases)
        # ---- the library
        trace = os.path.join(wd, "trace.ndjson")
        t_h = time.time()
        vlib.run_harness(["c13", "-out", trace, "-cases", os.path.join(wd, "enc.ndjson"), "-ops", os.path.join(wd, "ops_enc.ndjson"),
                          "-lens", os.path.join(wd, "lens_enc.ndjson"), "-made", str(run.seed), "-bigs", os.path.join(wd, "bigs_enc.ndjson")], timeout=3000)
        vlib.log("[C13] harness %.1fs" % (time.time() - t_h))
        lines = vlib.read_ndjson(trace)
        # decoding into a receiver that held another message before: recorded, not judged (TraceC13)
        ru = [x for x in lines if x.get("reused")]
        run.extra["decoded_into_a_used_receiver"] = {"decodes": len(ru),
            "types_whose_result_differs_from_a_fresh_decode": sorted({x["type"] for x in ru if x.get("rerr2") == "" and x.get("projReused") != x.get("proj")})}
        skipped = [x for x in lines if x["ev"] == "made" and x["skipped"]]
        made = [x for x in lines if x["ev"] == "made"]
        if len(skipped) * 10 > len(made):
            raise vlib.Inconclusive("the library's constructors failed in this environment: %s" % [(x["what"], x["err"]) for x in skipped[:5]])
        if len(lines) - len(made) != len(cases) + len(ops) + len(lens) + len(bigs) or len(made) < 100:
            raise vlib.Inconclusive("the harness recorded %d + %d lines for %d cases" % (len(lines) - len(made), len(made), len(cases) + len(ops) + len(lens) + len(bigs)))
        # ---- role C
        res = vlib.tlc_or_die(wd, "TraceC13", timeout=3400, xmx="12g")
        vlib.log("[C13] TraceC13 %.1fs (%d lines)" % (res.wall, len(lines)))
        bad = sorted(int(v) for v in res.tags("BADLINE"))
        if res.distinct != len(lines) + 1:
            raise vlib.Inconclusive("TraceC13: TLC visited %d states, expected %d (lines skipped?)\n%s" % (res.distinct, len(lines) + 1, res.out[-2000:]))
        run.add_model(res)
        run.cov["traces_validated_against_impl"] = len(lines) - len(bad)
        why = whys(res)
        from cryptocommon import binding_selftest
        binding_selftest(run, wd, "TraceC13", trace, 3400, exclude=bad)
        broken = sorted({c for cs in why.values() for c in cs if c.startswith("input")})
        if broken:
            raise vlib.Inconclusive("what the harness was fed is not what the specification derives (%s) on lines %s" % (
                broken, [i for i, cs in why.items() if any(c.startswith("input") for c in cs)][:10]))
        nlen = sum(len(l["ns"]) for l in lens)
        run.cov["evaluations"] = len(cases) + len(ops) + nlen + len(made) + len(bigs)
        run.cov["distinct_nontrivial"] = len({(c["type"], c["spec"]) for c in cases}) + len(ops) + nlen + len({x["bytes"] for x in made}) + len(bigs)
        lab = {c["id"]: c["label"] for c in cases}
        by_type = {}
        for c in cases:
            by_type[c["type"]] = by_type.get(c["type"], 0) + 1
        run.extra.update({"codec_cases": len(cases), "op_cases": len(ops), "constructor_made_encodings": len(made) - len(skipped), "constructors_skipped": [(x["what"], x["err"]) for x in skipped][:5],
                          "EncTGSRepPart_reencoded_as_EncASRepPart": sum(1 for x in lines if x["ev"] == "codec" and x["type"] == "EncTGSRepPart"
                                                                         and x["spec"][:2] == "7a" and x["re"][:2] == "79"), "lengths_checked": nlen, "cases_by_type": by_type,
                          "max_encoding_bytes": max([len(c["spec"]) // 2 for c in cases] + [x["speclen"] for x in lines if x["ev"] == "big"]),
                          "length_field_octets_exercised_incl_prefix": sorted({1 if n < 128 else 1 + (n.bit_length() + 7) // 8 for n in
                                                             [len(c["spec"]) // 2 for c in cases] + [x["speclen"] for x in lines if x["ev"] == "big"]}),
                          "big_cases": len(bigs),
                          "rejected_lines": len(bad)})
        run.cov["rule"] = ("codec: per type (the property's list plus gokrb5's decode-only neighbours), a base value and its single-site "
                           "variations (each OPTIONAL absent / present-but-zero, each integer at " + str(len(B_I32)) + " Int32 / " + str(len(B_U32)) +
                           " UInt32 boundary values, each string at lengths " + str(STRLENS) + " and 70000, each KerberosFlags bit, sequences of 0..4 "
                           "elements incl. 0..4 name components and 0..4 additional tickets, times, OIDs, bit-string lengths; quick = one "
                           "base value per type, thorough = five), seeded random combinations, SPNEGO / KRB5 token framings, values with an "
                           "octet string of about 2^24 octets (four length octets); ops: decrypt ticket (key and "
                           "keytab), AP-REQ ticket + authenticator, KRB-PRIV, AS-REP, TGS-REP over six etypes, then marshal again; made: encodings "
                           "produced through the library's constructors, decoded by the specification; lens: "
                           "0..300, 2^k-1, 2^k, 2^k+1 (k <= 24), seeded stride through 0..2^24. distinct = distinct (type, encoding) + ops + lengths + distinct made encodings")
        def short(x):
            return {k: (v if not isinstance(v, str) or len(v) < 160 else v[:160] + "...") for k, v in x.items()
                    if k not in ("seq", "hdrs", "marshal", "numbytes", "getlen", "ns", "parts", "projOwn", "panicM", "panicU", "panicO", "own", "oerr")}
        firsts = {}
        for x in lines:
            firsts.setdefault(x["ev"], x)
        for ev in ("codec", "op", "made", "big"):
            if ev in firsts:
                x = firsts[ev]
                if ev == "op":
                    x = {"ev": "op", "op": x["op"], "errs": x["errs"], "orig_bytes": len(x["orig"]) // 2, "after_bytes": len(x["after"]) // 2,
                         "orig": x["orig"], "decrypted_parts": x["projs"]}
                run.sample(short(x))
        for i in bad:
            x = lines[i - 1]
            failed = ",".join(sorted(set(why.get(i, ["?"]))))
            if x["ev"] == "codec":
                facts = {"ev": "codec", "type": x["type"], "failed": failed}
                detail = {"line": {k: v for k, v in x.items()}, "label": lab.get(x["id"])}
            elif x["ev"] == "op":
                facts = {"ev": "op", "op": x["op"], "failed": failed, "grown": len(x["after"]) > len(x["orig"])}
                detail = {"line": x, "orig_len": len(x["orig"]) // 2, "after_len": len(x["after"]) // 2}
            elif x["ev"] == "big":
                facts = {"ev": "big", "type": x["type"], "failed": failed}
                detail = {"line": x}
            elif x["ev"] == "made":
                facts = {"ev": "made", "what": x["what"], "type": x["type"], "failed": failed}
                detail = {"line": x}
            else:
                facts = {"ev": "lens", "failed": failed}
                detail = {"line": x}
            run.violation(facts, detail)
        run.assumptions += [
            "abstract values stay inside what gokrb5's structs can express: NegTokenResp always carries negState (OPTIONAL in RFC 4178), "
            "KerberosFlags have exactly 32 bits, integers stay in the range of their RFC type",
            "gokrb5 has one type for EncASRepPart and EncTGSRepPart whose Marshal writes [APPLICATION 25]; an EncTGSRepPart is "
            "required to decode, and to re-encode as the EncASRepPart of the same value (documented deviation, not reported)",
            "when an OPTIONAL field is transmitted with a zero/empty value (the property's caveat) any DER encoding that the "
            "specification's decoder maps to the same field values is accepted",
            "encryption of the operation cases' plaintexts is done by the library (C05-C08 check it); only the ASN.1 is the specification's",
            "trusted base: TLC, the hex/string conversions of KrbPrims.java"]
    finally:
        if keep:
            vlib.log("[C13] scratch directory kept: " + wd)
        else:
            shutil.rmtree(wd, ignore_errors=True)
    run.finish(exhaustive=False)


def replay(rep):
    os.environ["VERIF_SEED"] = str(rep.get("seed", 1))
    main(rep.get("tier", "quick"))
