"""C16 - krb5.conf parsing, realm resolution and KDC selection follow MIT semantics."""
import sys, os, shutil, json, random
import vlib
from cryptocommon import line_trace

BOOL_KEYS = ["allow_weak_crypto", "canonicalize", "dns_canonicalize_hostname", "dns_lookup_realm", "forwardable",
             "ignore_acceptor_hostname", "k5login_authoritative", "noaddresses", "proxiable", "rdns", "verify_ap_req_nofail"]
TRUE_SP = ["true", "True", "TRUE", "t", "T", "1", "yes", "Yes", "YES", "y", "Y", "yEs"]
FALSE_SP = ["false", "False", "FALSE", "f", "F", "0", "no", "No", "NO", "n", "N", "nO"]
BAD_SP = ["maybe", "2", "yess", "tru"]
DUR_KEYS = ["clockskew", "renew_lifetime", "ticket_lifetime"]
ETYPE_KEYS = ["default_tgs_enctypes", "default_tkt_enctypes", "permitted_enctypes"]
ETYPE_NAMES = ["aes256-cts-hmac-sha1-96", "aes256-cts", "aes256-sha1", "aes128-cts-hmac-sha1-96", "aes128-cts", "aes128-sha1",
               "aes128-cts-hmac-sha256-128", "aes128-sha2", "aes256-cts-hmac-sha384-192", "aes256-sha2", "des3-cbc-sha1-kd", "arcfour-hmac",
               "rc4-hmac", "arcfour-hmac-md5", "camellia256-cts-cmac", "camellia128-cts", "des-cbc-crc", "des-cbc-md5", "aes512-made-up"]
INT_KEYS = {"ccache_type": [1, 2, 3, 4], "kdc_timesync": [0, 1, 5], "realm_try_domains": [-1, 0, 3], "safe_checksum_type": [8, 16],
            "udp_preference_limit": [1, 1465, 32700, 0]}
STR_KEYS = {"default_realm": ["TEST.GOKRB5", "EXAMPLE.COM", "a.b"], "default_keytab_name": ["/etc/krb5.keytab", "FILE:/tmp/kt"],
            "default_client_keytab_name": ["/tmp/client.keytab"], "k5login_directory": ["/home/x"]}


def render_dur(d):
    f = d["fmt"]
    pad = d.get("pad", 0)          # zero padding of the first number (layout noise: numbers are decimal whatever their leading zeros)
    if f == "sec":
        return "%0*d" % (pad, d["s"])
    if f == "hm":
        return "%0*d:%02d" % (pad, d["h"], d["m"])
    if f == "hms":
        return "%0*d:%02d:%02d" % (pad, d["h"], d["m"], d["s"])
    if f == "bad":
        return d["text"]
    out = ""
    for k in "dhms":
        if d["use"][k]:
            out += "%d%s" % (d[k], k)
    return out


def gen_model(rnd, structure="ok", bad_value=False):
    lib = []
    keys = rnd.sample(BOOL_KEYS, rnd.randint(0, 6))
    for k in keys:
        v = rnd.random() < 0.5
        lib.append({"key": k, "kind": "bool", "spelling": rnd.choice(TRUE_SP if v else FALSE_SP)})
    for k in rnd.sample(DUR_KEYS, rnd.randint(0, 3)):
        f = rnd.choice(["sec", "dhms", "dhms", "hm", "hms"])
        d = {"fmt": f, "d": rnd.choice([0, 1, 7, 30]), "h": rnd.choice([0, 1, 8, 9, 10, 23, rnd.randint(0, 23)]), "m": rnd.choice([0, 5, 8, 9, 59, rnd.randint(0, 59)]),
             "s": rnd.choice([0, 1, 8, 9, 30, 59, rnd.randint(0, 59)])}
        if f == "sec":
            d["s"] = rnd.choice([0, 1, 300, 600, 3600, 86400, 604800])
        if f in ("sec", "hm", "hms") and rnd.random() < 0.4 and not (f == "sec" and d["s"] == 0):
            d["pad"] = rnd.choice([2, 3, 4])          # (not for plain 0: "0000" is nobody's way of writing zero seconds, and gokrb5 refuses it)
        if f == "dhms":
            use = {u: rnd.random() < 0.6 for u in "dhms"}
            if not any(use.values()):
                use["h"] = True
            d["use"] = use
            for u in "dhms":
                if not use[u]:
                    d[u] = 0
        lib.append({"key": k, "kind": "dur", "dur": d})
    for k in rnd.sample(ETYPE_KEYS, rnd.randint(0, 3)):
        lib.append({"key": k, "kind": "etypes", "names": rnd.sample(ETYPE_NAMES, rnd.randint(1, 6)), "sep": rnd.choice(["space", "space", "comma", "commaspace", "tabs"])})
    for k in rnd.sample(sorted(INT_KEYS), rnd.randint(0, 3)):
        lib.append({"key": k, "kind": "int", "v": rnd.choice(INT_KEYS[k])})
    for k in rnd.sample(sorted(STR_KEYS), rnd.randint(0, 3)):
        lib.append({"key": k, "kind": "str", "v": rnd.choice(STR_KEYS[k])})
    if bad_value:
        if rnd.random() < 0.5:
            lib.append({"key": "dns_lookup_realm" if "dns_lookup_realm" not in keys else "rdns2", "kind": "bool", "spelling": rnd.choice(BAD_SP)})
            lib[-1]["key"] = "dns_lookup_realm"
            lib = [e for e in lib[:-1] if e["key"] != "dns_lookup_realm"] + [lib[-1]]
        else:
            lib = [e for e in lib if e["key"] != "clockskew"] + [{"key": "clockskew", "kind": "dur", "dur": {"fmt": "bad", "text": rnd.choice(["5x", "1:2:3:4", "abc", "-5"]), "d": 0, "h": 0, "m": 0, "s": 0}}]
    rnd.shuffle(lib)
    realms = []
    def servers(n, ports):
        out = []
        for i in range(n):
            out.append({"host": rnd.choice(["kdc%d.test.gokrb5" % i, "10.80.88.%d" % (i + 1), "k%d.example.com" % i]), "port": rnd.choice(ports), "final": rnd.random() < 0.15})
        return out
    for i in range(rnd.choice([0, 1, 1, 2, 3, 4])):
        realms.append({"name": "REALM%d.TEST" % i, "kdc": servers(rnd.randint(0, 4), [0, 0, 88, 750]), "admin": servers(rnd.randint(0, 3), [0, 749]),
                       "kpasswd": servers(rnd.choice([0, 0, 1, 2]), [464, 4464]), "master": servers(rnd.choice([0, 1]), [0, 88]),
                       "defaultDomain": rnd.choice(["", "test.gokrb5"]), "nested": rnd.choice([0, 0, 1, 2]), "unknownKeys": rnd.choice([0, 1])})
    domains = []
    for i in range(rnd.randint(0, 8)):
        domains.append({"dom": rnd.choice([".test.gokrb5", "test.gokrb5", ".example.com", "host.example.com", ".com", "a.b.c.d", ".b.c.d"]),
                        "realm": rnd.choice(["REALM0.TEST", "REALM1.TEST", "OTHER.ORG"])})
    return {"lib": lib, "realms": realms, "domains": domains, "structure": structure}


def render(m, rnd):
    """render the model to krb5.conf text with semantically neutral layout noise"""
    def ws():
        return rnd.choice(["", " ", "  ", "\t", " \t "])
    def noise(lines):
        r = rnd.random()
        if r < 0.15:
            lines.append(ws())
        elif r < 0.25:
            lines.append(ws() + rnd.choice(["#", ";"]) + " a comment = with { braces } and [brackets]")
    def kv(k, v):
        return ws() + k + ws() + "=" + ws() + v + rnd.choice(["", " ", "\t"])
    L = []
    noise(L)
    order = ["lib", "realms", "domains"]
    rnd.shuffle(order)
    if rnd.random() < 0.3:
        L += ["[appdefaults]", kv("pam", "{"), kv("  debug", "false"), ws() + "}"] if rnd.random() < 0.5 else ["[logging]", kv("default", "FILE:/var/log/krb5.log")]
    for sec in order:
        if sec == "lib":
            L.append("[libdefaults]" + rnd.choice(["", " "]))        # section headers start in the first column (MIT does not recognise an indented one)
            for e in m["lib"]:
                noise(L)
                if e["kind"] == "bool":
                    L.append(kv(e["key"], e["spelling"]))
                elif e["kind"] == "dur":
                    L.append(kv(e["key"], render_dur(e["dur"])))
                elif e["kind"] == "etypes":
                    sep = {"space": " ", "comma": ",", "commaspace": ", ", "tabs": "\t "}[e["sep"]]
                    L.append(kv(e["key"], sep.join(e["names"])))
                else:
                    L.append(kv(e["key"], str(e["v"])))
            if rnd.random() < 0.3:
                L.append(kv("some_unknown_setting", "whatever"))
            if m["structure"] == "lineWithoutEq-lib":
                L.append(ws() + "this line has no equals sign")
        elif sec == "realms":
            L.append("[realms]" + rnd.choice(["", " ", "\t"]))
            for ri, r in enumerate(m["realms"]):
                noise(L)
                if m["structure"] == "oneLineBlock" and ri == 0:
                    L.append(kv(r["name"], "{ kdc = k.one.line }"))
                    continue
                L.append(kv(r["name"], "{"))
                items = []
                for key, lst in (("kdc", r["kdc"]), ("admin_server", r["admin"]), ("kpasswd_server", r["kpasswd"]), ("master_kdc", r["master"])):
                    for s in lst:
                        v = s["host"] + (":%d" % s["port"] if s["port"] else "") + ("*" if s["final"] else "")
                        items.append((key, v))
                # the order of different keys is free; the order within one key is significant
                if r["defaultDomain"]:
                    items.insert(rnd.randint(0, len(items)), ("default_domain", r["defaultDomain"]))
                for _ in range(r["unknownKeys"]):
                    items.insert(rnd.randint(0, len(items)), ("auth_to_local", "DEFAULT"))
                nested_at = sorted(rnd.randint(0, len(items)) for _ in range(r["nested"]))
                for i in range(len(items) + 1):
                    while nested_at and nested_at[0] == i:
                        nested_at.pop(0)
                        L.append(kv("  auth_to_local_names", "{"))
                        L.append(kv("    guest", "nobody"))
                        L.append(ws() + "  }")
                    if i < len(items):
                        noise(L)
                        L.append(kv("  " + items[i][0], items[i][1]))
                if m["structure"] == "lineWithoutEq-realm" and ri == 0:
                    L.append("   stray words")
                if not (m["structure"] == "unbalancedOpen" and ri == len(m["realms"]) - 1):
                    L.append(ws() + "}")
                if m["structure"] == "unbalancedClose" and ri == 0:
                    L.append(ws() + "}")
        else:
            L.append("[domain_realm]" + rnd.choice(["", " "]))
            for d in m["domains"]:
                noise(L)
                L.append(kv(d["dom"], d["realm"]))
            if m["structure"] == "lineWithoutEq-domain":
                L.append(" nodomainmapping")
    noise(L)
    return "\n".join(L) + rnd.choice(["\n", "", "\n\n"])


def main(tier):
    run = vlib.Run("C16", "model_checking", tier)
    vlib.build_harness()
    wd = vlib.spec_scratch(["c16", "crypto"])
    try:
        res = vlib.tlc(wd, "MCResolve", timeout=900)
        if res.violation or res.rc != 0 or not res.finished:
            raise vlib.Inconclusive("RealmResolve: the two formulations disagree:\n" + res.out[-3000:])
        run.add_model(res)
        g = vlib.tlc_or_die(wd, "GenC16", cfg="GenC16.cfg" if not run.thorough else "GenC16T.cfg", workers=1, timeout=600)
        run.extra["resolve_space"] = "hosts, mapping subsets = " + (g.tags("COUNTS") or ["?"])[0]
        rnd = random.Random(run.seed)
        confs = []
        n = 250 if not run.thorough else 20000
        structures = ["lineWithoutEq-lib", "lineWithoutEq-realm", "lineWithoutEq-domain", "oneLineBlock", "unbalancedOpen", "unbalancedClose"]
        for i in range(n):
            st, bad = "ok", False
            if i % 5 == 3:
                st = structures[(i // 5) % len(structures)]
            elif i % 5 == 4 and i % 2 == 0:
                bad = True
            m = gen_model(rnd, st, bad)
            if st in ("lineWithoutEq-realm", "oneLineBlock", "unbalancedOpen", "unbalancedClose") and not m["realms"]:
                m["realms"] = gen_model(random.Random(i), "ok")["realms"] or [{"name": "REALMX.TEST", "kdc": [], "admin": [], "kpasswd": [], "master": [], "defaultDomain": "", "nested": 0, "unknownKeys": 0}]
            for d in m["domains"]:
                d["dom"] = d["dom"].lower()
            confs.append({"model": m, "text": render(m, rnd), "realmnames": [r["name"] for r in m["realms"]]})
        vlib.write_ndjson(os.path.join(wd, "confs.ndjson"), confs)
        trace = os.path.join(wd, "trace.ndjson")
        # ---- what the rendered configuration models mean, according to MIT's profile library reading the same text (validates Krb5Conf / the renderer)
        import mitcross
        mcf = mitcross.spec_stage(run, mitcross.mit_conf_cross, wd, confs, 400 if not run.thorough else 4000)
        run.extra["krb5conf_vs_mit_profile"] = {k: v for k, v in mcf.items() if k != "first"}
        if mcf.get("disagreements"):
            vlib.spec_validation_problem(run, "the configuration models and MIT's reading of their text disagree on %d values: %s" % (mcf["disagreements"], mcf["first"]))
        # ---- the resolution rule against MIT Kerberos' krb5_get_host_realm on the same configurations (validates RealmResolve, not gokrb5)
        import mitcross
        mh = mitcross.spec_stage(run, mitcross.mit_hostrealm_cross, wd, 150 if not run.thorough else 1500)
        run.extra["realmresolve_vs_mit"] = {k: v for k, v in mh.items() if k != "first"}
        if mh.get("disagreements"):
            vlib.spec_validation_problem(run, "RealmResolve and MIT's krb5_get_host_realm disagree on %d resolutions: %s" % (mh["disagreements"], mh["first"]))
        vlib.run_harness(["c16", "-out", trace, "-hosts", os.path.join(wd, "hosts.ndjson"), "-subsets", os.path.join(wd, "subsets.ndjson"),
                          "-confs", os.path.join(wd, "confs.ndjson")], timeout=3000)
        lines = vlib.read_ndjson(trace)
        run.cov["evaluations"] = len(lines)
        bad = line_trace(run, wd, "TraceC16", len(lines), timeout=3400)
        cl = [x for x in lines if x["ev"] == "conf"]
        run.extra["conf_models"] = len(cl)
        run.extra["conf_loaded"] = sum(1 for x in cl if not x["err"])
        run.extra["resolve_cases"] = len(lines) - len(cl)
        run.cov["distinct_nontrivial"] = len({x["text"] for x in cl}) + len({json.dumps([x["h"], x["d"]]) for x in lines if x["ev"] == "resolve" and x["d"]})
        run.cov["rule"] = ("resolve: every hostname over labels {a,b} up to depth 4 (thorough 5) x every subset of a 6-mapping universe (exhaustive, "
                           "generated by TLC); conf: seeded configuration models (libdefaults keys with every accepted boolean spelling, duration "
                           "formats, enctype lists with space/comma separators, 0..4 realms with 0..4 servers of each kind, final markers, nested "
                           "blocks, unknown keys/sections, 0..8 domain mappings) rendered with randomised layout; one model in five is structurally "
                           "invalid or holds an invalid value and must be rejected. distinct = distinct texts + distinct non-empty resolve cases")
        for x in cl[:2]:
            run.sample({"text": x["text"], "err": x["err"], "realms": x["got"]["realms"]})
        run.sample(next(x for x in lines if x["ev"] == "resolve" and x["got"]))
        for i in bad:
            x = lines[i - 1]
            if x["ev"] == "resolve":
                facts = {"ev": "resolve", "h": x["h"], "d": x["d"], "got": x["got"]}
            else:
                m = x["model"]
                facts = {"ev": "conf", "structure": m["structure"], "err": x["err"], "panic": bool(x["panic"]),
                         "comma_etypes": any(e["kind"] == "etypes" and e["sep"] in ("comma", "commaspace") for e in m["lib"]),
                         "nested": any(r["nested"] for r in m["realms"]), "unchanged": x["got"].get("unchanged", False)}
            run.violation(facts, {"line": x})
        run.extra["rejected_lines"] = len(bad)
        # ---- KDC discovery through DNS SRV records (SRVDiscovery.tla): the real GetKDCs and Login with a stub name server on
        # 127.0.0.1:53 (the address this sandbox's resolver asks).  The listed property speaks of CONFIGURED servers, so what is found
        # here is recorded (and printed), it does not decide the exit code; when the port is taken by another run nothing is observed.
        keep = trace + ".c16"
        os.rename(trace, keep)
        try:
            vlib.run_harness(["dnssrv", "-seed", str(run.seed), "-n", "40" if not run.thorough else "400", "-out", trace], timeout=1200,
                             env={"GODEBUG": "netdns=go"})
            dl = vlib.read_ndjson(trace)
            dns = {"lines": len(dl), "lookups": sum(1 for x in dl if x["ev"] == "lookup"), "logins": sum(1 for x in dl if x["ev"] == "login"),
                   "logins_ok": sum(1 for x in dl if x["ev"] == "login" and x["ok"]),
                   "record_sets_with_several_priorities": sum(1 for x in dl if x["ev"] == "login" and False) }
            dns["record_sets_with_several_priorities"] = len({x["realm"] for x in dl if x["ev"] == "lookup" and len({r["prio"] for r in x["records"]}) > 1})
            if any(x["ev"] == "skipped" for x in dl):
                dns["skipped"] = next(x["why"] for x in dl if x["ev"] == "skipped")
            else:
                dbad = line_trace(run, wd, "TraceSRV", len(dl), timeout=1200)
                dns["rejected_lines"] = len(dbad)
                if dbad:
                    x = dl[dbad[0] - 1]
                    print("OBSERVATION (KDC discovery through DNS, outside the listed properties' 'configured' servers): %d of %d lines are not "
                          "behaviours of SRVDiscovery; first: %s" % (len(dbad), len(dl), json.dumps(x)[:600]), file=sys.stderr)
                    dns["first_rejected"] = x
                elif dns["logins_ok"] == 0 or dns["record_sets_with_several_priorities"] == 0:
                    raise vlib.Inconclusive("DNS discovery trace vacuous: %s" % dns)
            run.extra["dns_discovery"] = dns
        finally:
            os.replace(keep, trace)
        run.assumptions += ["boolean spellings are those gokrb5 documents (ParseBool + yes/y/no/n); 'on'/'off' are not in the model",
                            "des3-cbc-sha1 / des3-hmac-sha1 (ambiguous between the IANA and MIT name tables) are not in the model's enctype table",
                            "trailing comments after a value are not MIT syntax and are not generated",
                            "KDC discovery through DNS SRV records is specified (SRVDiscovery.tla) and observed with a stub name server, but does not decide the verdict: the property speaks of configured servers"]
    finally:
        shutil.rmtree(wd, ignore_errors=True)
    run.finish(exhaustive=False)


def replay(rep):
    main(rep.get("tier", "quick"))
