---- MODULE KrbPrims ----
EXTENDS Naturals, Sequences
HMAC(alg, key, data) == CHOOSE s \in Seq(0..255) : TRUE
Hash(alg, data) == CHOOSE s \in Seq(0..255) : TRUE
AESCBCEnc(key, iv, data) == CHOOSE s \in Seq(0..255) : TRUE
AESCBCDec(key, iv, data) == CHOOSE s \in Seq(0..255) : TRUE
DES3CBCEnc(key, iv, data) == CHOOSE s \in Seq(0..255) : TRUE
DES3CBCDec(key, iv, data) == CHOOSE s \in Seq(0..255) : TRUE
RC4(key, data) == CHOOSE s \in Seq(0..255) : TRUE
PBKDF2(alg, pw, salt, iter, len) == CHOOSE s \in Seq(0..255) : TRUE
Xor(a, b) == CHOOSE s \in Seq(0..255) : TRUE
====
