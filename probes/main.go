package main

import (
	"bytes"
	"encoding/json"
	"fmt"
	"os"

	"github.com/jcmturner/gokrb5/v8/crypto"
	"github.com/jcmturner/gokrb5/v8/types"
)

type rec struct {
	Plain  []int `json:"plain"`
	Cipher []int `json:"cipher"`
	Ck     []int `json:"ck"`
}

func tb(a []int) []byte { b := make([]byte, len(a)); for i, v := range a { b[i] = byte(v) }; return b }

func main() {
	raw, _ := os.ReadFile("/tmp/probe/c/out.json")
	var rs []rec
	if err := json.Unmarshal(raw, &rs); err != nil { panic(err) }
	key := make([]byte, 16)
	for i := range key { key[i] = byte(i + 1) }
	k := types.EncryptionKey{KeyType: 17, KeyValue: key}
	et, _ := crypto.GetEtype(17)
	bad := 0
	for i, r := range rs {
		pt, err := crypto.DecryptMessage(tb(r.Cipher), k, 11)
		if err != nil || !bytes.Equal(pt, tb(r.Plain)) { bad++; fmt.Println("mismatch enc", i, err) }
		ck, _ := et.GetChecksumHash(key, tb(r.Plain), 6)
		if !bytes.Equal(ck, tb(r.Ck)) { bad++; fmt.Println("mismatch ck", i) }
	}
	fmt.Println("records", len(rs), "bad", bad)
}
