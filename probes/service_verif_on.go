//go:build verif

package service

// VerifYield is called at guarded yield points; nil means run freely.
var VerifYield func(label string)

func verifYield(label string) {
	if f := VerifYield; f != nil {
		f(label)
	}
}

// NewVerifCache returns a private replay cache (the singleton's map cannot be initialised from outside).
func NewVerifCache() *Cache { return &Cache{entries: make(map[string]clientEntries)} }
