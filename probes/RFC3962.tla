---- MODULE RFC3962 ----
EXTENDS Integers, Sequences, TLC, KrbPrims

Zeros(n) == [i \in 1..n |-> 0]
Take(s, n) == SubSeq(s, 1, n)
Drop(s, n) == SubSeq(s, n + 1, Len(s))
GCD(a, b) == LET RECURSIVE G(_, _)
                 G(x, y) == IF y = 0 THEN x ELSE G(y, x % y) IN G(a, b)
LCM(a, b) == (a * b) \div GCD(a, b)

\* ---- RFC 3961 5.1 n-fold, on bytes -------------------------------------
\* Bit i (0-based, MSB first) of byte sequence b
Bit(b, i) == (b[(i \div 8) + 1] \div (2 ^ (7 - (i % 8)))) % 2
\* rotate right by k bits: out bit i = in bit (i - k) mod n
RotRBytes(b, k) ==
  LET n == 8 * Len(b)
      ob(j) == Bit(b, (((j - k) % n) + n) % n)
  IN TLCEval([q \in 1..Len(b) |->
        ob(8*(q-1)) * 128 + ob(8*(q-1)+1) * 64 + ob(8*(q-1)+2) * 32 + ob(8*(q-1)+3) * 16 +
        ob(8*(q-1)+4) * 8 + ob(8*(q-1)+5) * 4 + ob(8*(q-1)+6) * 2 + ob(8*(q-1)+7)])
\* ones'-complement addition of two equal-length big-endian byte strings
OCAdd(a, b) ==
  LET n == Len(a)
      RECURSIVE Go(_, _, _)
      \* returns <<bytes, carry>> processing from least significant byte i down to 1
      Go(i, carry, acc) == IF i = 0 THEN <<acc, carry>>
                           ELSE LET s == a[i] + b[i] + carry IN Go(i - 1, s \div 256, <<s % 256>> \o acc)
      r == Go(n, 0, <<>>)
      RECURSIVE Prop(_, _, _)
      Prop(i, carry, acc) == IF i = 0 THEN <<acc, carry>>
                             ELSE LET s == r[1][i] + carry IN Prop(i - 1, s \div 256, <<s % 256>> \o acc)
      r2 == IF r[2] = 0 THEN r ELSE Prop(n, 1, <<>>)
      r3 == IF r2[2] = 0 THEN r2 ELSE <<[i \in 1..n |-> IF i = n THEN 1 ELSE 0], 0>> \* all-ones + 1 wrap: cannot occur twice
  IN r3[1]
NFold(m, nbits) ==
  LET k == 8 * Len(m)
      l == LCM(nbits, k)
      reps == l \div k
      nb == nbits \div 8
      RECURSIVE Cat(_)
      Cat(i) == IF i = reps THEN <<>> ELSE RotRBytes(m, 13 * i) \o Cat(i + 1)
      big == Cat(0)
      RECURSIVE Sum(_, _)
      Sum(i, acc) == IF i = l \div nbits THEN acc ELSE Sum(i + 1, OCAdd(acc, SubSeq(big, i * nb + 1, (i + 1) * nb)))
  IN Sum(0, Zeros(nb))

\* ---- RFC 3962: AES-CTS with zero IV -----------------------------------
CTSEnc(key, pt) ==
  LET n == Len(pt) IN
  IF n <= 16 THEN
     \* single (possibly short) block: pad with zeros, encrypt, (RFC: for len<16 CTS is not defined; messages always >= 16 because of confounder)
     AESCBCEnc(key, Zeros(16), pt \o Zeros(16 - n))
  ELSE
     LET r == n % 16
         padn == IF r = 0 THEN 0 ELSE 16 - r
         cbc == AESCBCEnc(key, Zeros(16), pt \o Zeros(padn))
         nblk == Len(cbc) \div 16
         pre == Take(cbc, 16 * (nblk - 2))
         cn1 == SubSeq(cbc, 16 * (nblk - 2) + 1, 16 * (nblk - 1))
         cn == SubSeq(cbc, 16 * (nblk - 1) + 1, 16 * nblk)
     IN pre \o cn \o Take(cn1, IF r = 0 THEN 16 ELSE r)

\* DK / DR for the simplified profile with AES (RFC 3961 5.1, 5.3)
DR(key, constant, keybytes) ==
  LET c0 == IF Len(constant) = 16 THEN constant ELSE NFold(constant, 128)
      b1 == AESCBCEnc(key, Zeros(16), c0)
      b2 == AESCBCEnc(key, Zeros(16), b1)
  IN Take(b1 \o b2, keybytes)
DK(key, constant) == DR(key, constant, Len(key))
BE32(u) == <<(u \div 16777216) % 256, (u \div 65536) % 256, (u \div 256) % 256, u % 256>>
Ke(key, usage) == DK(key, BE32(usage) \o <<170>>)
Ki(key, usage) == DK(key, BE32(usage) \o <<85>>)
Kc(key, usage) == DK(key, BE32(usage) \o <<153>>)
Encrypt(key, usage, conf, plain) ==
  LET body == conf \o plain IN
  CTSEnc(Ke(key, usage), body) \o Take(HMAC("HmacSHA1", Ki(key, usage), body), 12)
Checksum(key, usage, data) == Take(HMAC("HmacSHA1", Kc(key, usage), data), 12)
====
