#!/usr/bin/env python3
# scratch: which candidate mutants compile and keep the pinned suite green?
import subprocess, os, sys, shutil, json
ROOT = '/tmp/mut/v8'
ORIG = '/repo/v8'
ENV = dict(os.environ, GOFLAGS='-mod=mod', GOPROXY='off', GOSUMDB='off', GOTOOLCHAIN='local')

M = [
 # id, property, file, old, new
 ("M01a","C01","messages/APReq.go","if !a.Authenticator.CName.Equal(a.Ticket.DecryptedEncPart.CName) {","if false {"),
 ("M01b","C01","messages/APReq.go","if t.Sub(ct) > d || ct.Sub(t) > d {","if t.Sub(ct) > d {"),
 ("M01c","C01","messages/Ticket.go","if t.DecryptedEncPart.StartTime.Sub(time) > d || types.IsFlagSet(&t.DecryptedEncPart.Flags, flags.Invalid) {","if t.DecryptedEncPart.StartTime.Sub(time) > d {"),
 ("M01d","C01","messages/Ticket.go","if time.Sub(t.DecryptedEncPart.EndTime) > d {","if time.Sub(t.DecryptedEncPart.EndTime) > 2*d {"),
 ("M01e","C01","service/APExchange.go","if s.RequireHostAddr() && len(APReq.Ticket.DecryptedEncPart.CAddr) < 1 {","if false {"),
 ("M01f","C01","service/APExchange.go","if rc.IsReplay(APReq.Ticket.SName, APReq.Authenticator) {","if false && rc.IsReplay(APReq.Ticket.SName, APReq.Authenticator) {"),
 ("M01g","C01","service/APExchange.go","if isPAC && err != nil {","if false && isPAC && err != nil {"),
 ("M01h","C01","messages/APReq.go","if len(a.Ticket.DecryptedEncPart.CAddr) > 0 {","if false {"),
 ("M01i","C01","keytab/keytab.go","if k.Principal.Realm == realm && len(k.Principal.Components) == len(princName.NameString) &&","if len(k.Principal.Components) == len(princName.NameString) &&"),
 ("M01j","C01","keytab/keytab.go","(k.KVNO == uint32(kvno) || kvno == 0) &&","(true) &&"),
 ("M01k","C01","types/HostAddress.go","func (h *HostAddress) Equal(a HostAddress) bool {\n\tif h.AddrType != a.AddrType {\n\t\treturn false\n\t}\n\treturn bytes.Equal(h.Address, a.Address)","func (h *HostAddress) Equal(a HostAddress) bool {\n\tif h.AddrType != a.AddrType {\n\t\treturn false\n\t}\n\treturn true || bytes.Equal(h.Address, a.Address)"),
 ("M01l","C01","service/APExchange.go","creds.SetValidUntil(APReq.Ticket.DecryptedEncPart.EndTime)","creds.SetValidUntil(APReq.Ticket.DecryptedEncPart.RenewTill)"),
 ("M01m","C01","messages/APReq.go","ok, err := a.Ticket.Valid(d)\n\tif err != nil || !ok {\n\t\treturn ok, err\n\t}","ok, err := a.Ticket.Valid(d)\n\tif false && (err != nil || !ok) {\n\t\treturn ok, err\n\t}"),
 ("M01n","C01","messages/APReq.go","if snameOverride != nil {\n\t\tsname = snameOverride\n\t}","if false && snameOverride != nil {\n\t\tsname = snameOverride\n\t}"),
 ("M01o","C01","messages/Ticket.go","if t.DecryptedEncPart.StartTime.Sub(time) > d ||","if t.DecryptedEncPart.StartTime.Sub(time) > 100*d ||"),
 # C02
 ("M02a","C02","service/cache.go","if e.sName.Equal(sname) {\n\t\t\treturn true\n\t\t}","if e.sName.Equal(sname) {\n\t\t\treturn false\n\t\t}"),
 ("M02b","C02","service/cache.go","ct := a.CTime.Add(time.Duration(a.Cusec) * time.Microsecond)\n\tif e, ok := c.getClientEntry(a.CName, ct); ok {","ct := a.CTime\n\tif e, ok := c.getClientEntry(a.CName, ct); ok {"),
 ("M02c","C02","service/cache.go","if time.Now().UTC().Sub(e.presentedTime) > d {","if time.Now().UTC().Sub(e.presentedTime) > d/100 {"),
 # C03
 ("M03a","C03","spnego/http.go","if status.Code != gssapi.StatusComplete && status.Code != gssapi.StatusContinueNeeded {","if status.Code != gssapi.StatusComplete && status.Code != gssapi.StatusContinueNeeded && status.Code != gssapi.StatusUnavailable {"),
 ("M03b","C03","spnego/http.go","if err == nil && id.Authenticated() {","if err == nil {"),
 ("M03c","C03","spnego/krb5Token.go","if !ok {\n\t\t\treturn false, gssapi.Status{Code: gssapi.StatusDefectiveCredential, Message: \"KRB5_AP_REQ token not valid\"}\n\t\t}","if false && !ok {\n\t\t\treturn false, gssapi.Status{Code: gssapi.StatusDefectiveCredential, Message: \"KRB5_AP_REQ token not valid\"}\n\t\t}"),
 ("M03d","C03","spnego/http.go","w.Header().Set(HTTPHeaderAuthResponse, spnegoNegTokenRespReject)\n\thttp.Error(w, UnauthorizedMsg, http.StatusUnauthorized)","w.Header().Set(HTTPHeaderAuthResponse, spnegoNegTokenRespReject)\n\thttp.Error(w, UnauthorizedMsg, http.StatusForbidden)"),
 ("M03e","C03","spnego/krb5Token.go","if err != nil {\n\t\t\treturn false, gssapi.Status{Code: gssapi.StatusDefectiveToken, Message: err.Error()}\n\t\t}\n\t\tif !ok {","if err != nil && !ok {\n\t\t\treturn false, gssapi.Status{Code: gssapi.StatusDefectiveToken, Message: err.Error()}\n\t\t}\n\t\tif !ok {"),
 # C04
 ("M04a","C04","keytab/keytab.go","if (*p + 2) > len(b) {\n\t\treturn 0, fmt.Errorf(\"%s's length is less than %d\", b, *p+2)\n\t}","if false {\n\t\treturn 0, fmt.Errorf(\"%s's length is less than %d\", b, *p+2)\n\t}"),
 ("M04b","C04","gssapi/wrapToken.go","if int(checksumL) > len(b)-HdrLen {","if false {"),
 ("M04c","C04","gssapi/MICToken.go","if len(b) < micHdrLen {","if len(b) < 3 {"),
 ("M04d","C04","spnego/krb5Token.go","if len(r) < 2 {","if false {"),
 ("M04e","C04","crypto/common/common.go","if n == 0 || n > len(b) {","if n == 0 {"),
 ("M04f","C04","keytab/keytab.go","if n+int(l) > len(b) {","if false {"),
 # C05 / C06 / C07
 ("M05a","C05","crypto/common/common.go","return getUsage(un, 0x55)","return getUsage(un, 0x56)"),
 ("M05b","C05","crypto/common/common.go","return getUsage(un, 0xAA)","return getUsage(un, 0xAB)"),
 ("M05c","C05","crypto/aes128-cts-hmac-sha1-96.go","func (e Aes128CtsHmacSha96) GetHMACBitLength() int {\n\treturn 96","func (e Aes128CtsHmacSha96) GetHMACBitLength() int {\n\treturn 80"),
 ("M05d","C05","crypto/rfc4757/msgtype.go","case 9:\n\t\tusage = 8","case 9:\n\t\tusage = 9"),
 ("M05e","C05","crypto/rfc4757/encryption.go","chksum := HMAC(k2, toenc)\n\tk3 := HMAC(k2, chksum)","chksum := HMAC(k2, toenc)\n\tk3 := HMAC(k1, chksum)"),
 ("M05f","C05","crypto/rfc3961/encryption.go","ih, err := common.GetIntegrityHash(plainBytes, key, usage, e)","ih, err := common.GetIntegrityHash(plainBytes[e.GetConfounderByteSize():], key, usage, e)"),
 ("M05g","C05","crypto/des3-cbc-sha1-kd.go","func (e Des3CbcSha1Kd) GetConfounderByteSize() int {\n\treturn des.BlockSize","func (e Des3CbcSha1Kd) GetConfounderByteSize() int {\n\treturn 2 * des.BlockSize"),
 ("M06a","C06","crypto/rfc3961/encryption.go","return hmac.Equal(h, expectedMAC)","return hmac.Equal(h[:4], expectedMAC[:4])"),
 ("M06b","C06","crypto/rfc4757/encryption.go","if !VerifyIntegrity(k2, pt, data, e) {","if false && !VerifyIntegrity(k2, pt, data, e) {"),
 ("M06c","C06","crypto/rfc3961/encryption.go","if !e.VerifyIntegrity(key, ciphertext, b, usage) {\n\t\treturn nil, errors.New(\"error decrypting: integrity verification failed\")","if false && !e.VerifyIntegrity(key, ciphertext, b, usage) {\n\t\treturn nil, errors.New(\"error decrypting: integrity verification failed\")"),
 ("M07a","C07","crypto/common/common.go","return getUsage(un, 0x99)","return getUsage(un, 0x98)"),
 ("M07b","C07","crypto/rc4-hmac.go","return hmac.Equal(checksum, chksum)","return hmac.Equal(checksum[:len(chksum)], chksum)"),
 ("M07c","C07","crypto/crypto.go","case chksumtype.HMAC_SHA1_96_AES128:\n\t\tvar et Aes128CtsHmacSha96","case chksumtype.HMAC_SHA1_96_AES128:\n\t\tvar et Aes256CtsHmacSha96"),
 ("M07d","C07","crypto/rfc4757/checksum.go","s := append([]byte(`signaturekey`), byte(0x00))","s := []byte(`signaturekey`)"),
 # C08
 ("M08a","C08","crypto/crypto.go","if salt == \"\" {\n\t\tsalt = cname.GetSalt(realm)\n\t}","salt = cname.GetSalt(realm)"),
 ("M08b","C08","crypto/crypto.go","if len(et2[0].S2KParams) == 4 {","if false {"),
 ("M08c","C08","types/PrincipalName.go","sb = append(sb, realm...)\n\tfor _, n := range pn.NameString {\n\t\tsb = append(sb, n...)\n\t}","for _, n := range pn.NameString {\n\t\tsb = append(sb, n...)\n\t}\n\tsb = append(sb, realm...)"),
 ("M08d","C08","crypto/rfc3961/keyDerivation.go","b[7] ^= 0xF0","b[7] ^= 0x0F"),
 ("M08e","C08","crypto/aes256-cts-hmac-sha384-192.go","return \"00008000\"","return \"00001000\""),
 ("M08f","C08","crypto/rfc8009/keyDerivation.go","c = append(c, byte(0))\n\tif len(context) > 0 {","if len(context) > 0 {"),
 # C09
 ("M09a","C09","messages/KDCRep.go","if k.DecryptedEncPart.Nonce != asReq.ReqBody.Nonce {","if false {"),
 ("M09b","C09","messages/KDCRep.go","if k.DecryptedEncPart.Nonce != tgsReq.ReqBody.Nonce {","if false {"),
 ("M09c","C09","messages/KDCRep.go","if !k.DecryptedEncPart.SName.Equal(asReq.ReqBody.SName) {","if false {"),
 ("M09d","C09","messages/KDCRep.go","if k.CRealm != asReq.ReqBody.Realm {","if false {"),
 ("M09e","C09","messages/KDCRep.go","if !k.CName.Equal(tgsReq.ReqBody.CName) {","if false {"),
 ("M09f","C09","messages/KDCRep.go","b, err := crypto.DecryptEncPart(k.EncPart, key, keyusage.AS_REP_ENCPART)","b, err := crypto.DecryptEncPart(k.EncPart, key, keyusage.TGS_REP_ENCPART_AUTHENTICATOR_SUB_KEY)"),
 ("M09g","C09","messages/KDCRep.go","if t.Sub(k.DecryptedEncPart.AuthTime) > cfg.LibDefaults.Clockskew || k.DecryptedEncPart.AuthTime.Sub(t) > cfg.LibDefaults.Clockskew {","if false {"),
 ("M09h","C09","client/ASExchange.go","if ok, err := ASRep.Verify(cl.Config, cl.Credentials, ASReq); !ok {","if ok, err := ASRep.Verify(cl.Config, cl.Credentials, ASReq); !ok && err == nil {"),
 # C10
 ("M10a","C10","client/cache.go","if time.Now().UTC().After(e.StartTime) && time.Now().UTC().Before(e.EndTime) {","if time.Now().UTC().After(e.StartTime) {"),
 ("M10b","C10","client/TGSExchange.go","if referral > 5 {","if referral > 500 {"),
 ("M10c","C10","messages/KDCReq.go","Till:       t.Add(c.LibDefaults.TicketLifetime),\n\t\t\t\tNonce:      int(nonce.Int64()),\n\t\t\t\tEType:      c.LibDefaults.DefaultTktEnctypeIDs,","Till:       t.Add(c.LibDefaults.TicketLifetime),\n\t\t\t\tNonce:      int(nonce.Int64()),\n\t\t\t\tEType:      c.LibDefaults.DefaultTGSEnctypeIDs,"),
 ("M10d","C10","messages/KDCReq.go","if c.LibDefaults.Forwardable {\n\t\ttypes.SetFlag(&a.ReqBody.KDCOptions, flags.Forwardable)\n\t}","if c.LibDefaults.Forwardable {\n\t\ttypes.SetFlag(&a.ReqBody.KDCOptions, flags.Proxiable)\n\t}"),
 ("M10e","C10","client/ASExchange.go","paEncTS, err := crypto.GetEncryptedData(paTSb, key, keyusage.AS_REQ_PA_ENC_TIMESTAMP, kvno)","paEncTS, err := crypto.GetEncryptedData(paTSb, key, keyusage.AS_REP_ENCPART, kvno)"),
 ("M10f","C10","client/cache.go","spn := tkt.SName.PrincipalNameString()\n\tc.mux.Lock()","spn := tkt.SName.NameString[0]\n\tc.mux.Lock()"),
 ("M10g","C10","client/session.go","if s.endTime.Sub(time.Now().UTC()) > d {","if true || s.endTime.Sub(time.Now().UTC()) > d {"),
 # C12
 ("M12a","C12","client/network.go","if e, ok := errudp.(messages.KRBError); ok && e.ErrorCode != errorcode.KRB_ERR_RESPONSE_TOO_BIG {","if e, ok := errudp.(messages.KRBError); ok {"),
 ("M12b","C12","client/network.go","rb, err := sendTCP(conn.(*net.TCPConn), b)\n\t\tif err != nil {\n\t\t\terrs = append(errs, fmt.Sprintf(\"error sneding to %s: %v\", kdcs[i], err))\n\t\t\tcontinue","rb, err := sendTCP(conn.(*net.TCPConn), b)\n\t\tif err != nil {\n\t\t\terrs = append(errs, fmt.Sprintf(\"error sneding to %s: %v\", kdcs[i], err))\n\t\t\tbreak"),
 ("M12c","C12","client/network.go","for i := 1; i <= len(kdcs); i++ {\n\t\tconn, err := net.DialTimeout(\"udp\"","for i := 1; i < len(kdcs); i++ {\n\t\tconn, err := net.DialTimeout(\"udp\""),
 # C13
 ("M13a","C13","asn1tools/tools.go","if l <= 127 {","if l <= 128 {"),
 ("M13b","C13","spnego/negotiationToken.go","ReqFlags       asn1.BitString          `asn1:\"explicit,optional,tag:1\"`","ReqFlags       asn1.BitString          `asn1:\"explicit,tag:1\"`"),
 ("M13c","C13","types/Authenticator.go","SeqNumber         int64             `asn1:\"explicit,optional,tag:7\"`","SeqNumber         int64             `asn1:\"explicit,optional,tag:9\"`"),
 ("M13d","C13","messages/KDCReq.go","rawtkts.Tag = 11","rawtkts.Tag = 10"),
 ("M13e","C13","kadmin/changepasswddata.go","TargRealm string              `asn1:\"generalstring,optional,explicit,tag:2\"`","TargRealm string              `asn1:\"optional,explicit,tag:2\"`"),
 # C14
 ("M14a","C14","keytab/keytab.go","k.Key.KeyType == etype &&","true &&"),
 ("M14b","C14","keytab/keytab.go","k.Timestamp.After(t) {","k.Timestamp.Before(t) || t.IsZero() {"),
 ("M14c","C14","keytab/keytab.go","if len(eb)-p >= 4 {","if len(eb)-p > 4 {"),
 ("M14d","C14","keytab/keytab.go","if kt.version != 1 {\n\t\t//Name Type is omitted in version 1","if false {\n\t\t//Name Type is omitted in version 1"),
 ("M14e","C14","keytab/keytab.go","len(k.Principal.Components) == len(princName.NameString) &&","len(k.Principal.Components) <= len(princName.NameString) &&"),
 # C15
 ("M15a","C15","credentials/ccache.go","if (c.Version == 1 || c.Version == 2) && isNativeEndianLittle() {","if (c.Version == 1) && isNativeEndianLittle() {"),
 ("M15b","C15","credentials/ccache.go","if c.Version == 3 {\n\t\t//repeated twice in version 3","if c.Version == 2 {\n\t\t//repeated twice in version 3"),
 ("M15c","C15","credentials/ccache.go","if strings.HasPrefix(cred.Server.Realm, \"X-CACHECONF\") {","if strings.HasPrefix(cred.Client.Realm, \"X-CACHECONF\") {"),
 # C16
 ("M16a","C16","config/krb5conf.go","for i := 2; i <= periods; i++ {","for i := 2; i < periods; i++ {"),
 ("M16b","C16","config/krb5conf.go","case \"y\":\n\t\treturn true, nil","case \"y\":\n\t\treturn false, nil"),
 ("M16c","C16","config/krb5conf.go","d := time.Duration(i[0])*time.Hour + time.Duration(i[1])*time.Minute","d := time.Duration(i[0])*time.Hour + time.Duration(i[1])*time.Second"),
 ("M16d","C16","config/krb5conf.go","v = strings.TrimSpace(v) + \":88\"","v = strings.TrimSpace(v) + \":750\""),
 ("M16e","C16","config/krb5conf.go","if *final {\n\t\treturn\n\t}","if false {\n\t\treturn\n\t}"),
 ("M16f","C16","config/hosts.go","ri := rand.Intn(l)\n\t\t\tkdcs[i] = ks[ri]","ri := rand.Intn(l)\n\t\t\tkdcs[i] = ks[0]"),
 # C17
 ("M17a","C17","gssapi/wrapToken.go","copy(header[0:], []byte{0x05, 0x04, flags, 0xFF, 0x00, 0x00, 0x00, 0x00})","copy(header[0:], []byte{0x05, 0x04, 0x00, 0xFF, 0x00, 0x00, 0x00, 0x00})"),
 ("M17b","C17","gssapi/MICToken.go","binary.BigEndian.PutUint64(header[8:16], mt.SndSeqNum)\n\treturn header","binary.BigEndian.PutUint64(header[8:16], 0)\n\treturn header"),
 ("M17c","C17","gssapi/wrapToken.go","if b[3] != FillerByte {","if false {"),
 ("M17d","C17","gssapi/MICToken.go","if isFromAcceptor && !expectFromAcceptor {","if false {"),
 # C18
 ("M18a","C18","spnego/http.go","if len(c.reqs) >= 10 {","if len(c.reqs) >= 1000000 {"),
 ("M18b","C18","spnego/http.go","if req.Body != nil {\n\t\t\t// Refresh the body reader so the body can be sent again\n\t\t\treq.Body = io.NopCloser(&body)\n\t\t}\n\t\tio.Copy","if false {\n\t\t\t// Refresh the body reader so the body can be sent again\n\t\t\treq.Body = io.NopCloser(&body)\n\t\t}\n\t\tio.Copy"),
 # C19
 ("M19a","C19","pac/pac_type.go","if pac.ClientInfo == nil {\n\t\treturn false, errors.New(\"PAC Info Buffers does not contain a ClientInfo\")\n\t}","if false {\n\t\treturn false, errors.New(\"PAC Info Buffers does not contain a ClientInfo\")\n\t}"),
 ("M19b","C19","pac/pac_type.go","keyusage.KERB_NON_KERB_CKSUM_SALT); !ok {","keyusage.KERB_NON_KERB_CKSUM_SALT); false && !ok {"),
 ("M19c","C19","pac/signature_data.go","copy(rb[4:4+c], z)","copy(rb[4:4+c/2], z)"),
 ("M19d","C19","service/APExchange.go","LogOnTime:           pac.KerbValidationInfo.LogOnTime.Time(),","LogOnTime:           pac.KerbValidationInfo.LogOffTime.Time(),"),
 ("M19e","C19","pac/kerb_validation_info.go","g = append(g, fmt.Sprintf(\"%s-%d\", lSID, k.GroupIDs[i].RelativeID))","g = append(g, fmt.Sprintf(\"%s-%d\", lSID, k.GroupIDs[i].Attributes))"),
 # C20
 ("M20a","C20","types/Cryptosystem.go","KeyValue []byte `asn1:\"explicit,tag:1\" json:\"-\"`","KeyValue []byte `asn1:\"explicit,tag:1\"`"),
 ("M20b","C20","client/cache.go","SessionKey types.EncryptionKey `json:\"-\"`","SessionKey types.EncryptionKey"),
 ("M20c","C20","client/ASExchange.go","return krberror.Errorf(err, krberror.EncryptingError, \"error getting key from credentials\")\n\t\t\t}\n\t\t} else {","return krberror.Errorf(err, krberror.EncryptingError, \"error getting key from credentials %s\", cl.Credentials.Password())\n\t\t\t}\n\t\t} else {"),
]

def run(cmd, cwd):
    return subprocess.run(cmd, cwd=cwd, env=ENV, shell=True, capture_output=True, text=True)

res = []
only = set(sys.argv[1:])
for mid, prop, f, old, new in M:
    if only and mid not in only: continue
    src = open(os.path.join(ORIG, f)).read()
    if src.count(old) != 1:
        res.append((mid, prop, f, "NOMATCH(%d)" % src.count(old))); print(res[-1], flush=True); continue
    open(os.path.join(ROOT, f), 'w').write(src.replace(old, new))
    b = run("go build ./... ", ROOT)
    if b.returncode != 0:
        st = "COMPILE-FAIL"
    else:
        t = run("go test -vet=off -count=1 ./... 2>&1 | grep -c '^FAIL\\|^--- FAIL'", ROOT)
        st = "SURVIVES" if t.stdout.strip() == "0" else "KILLED-BY-SUITE"
    shutil.copy(os.path.join(ORIG, f), os.path.join(ROOT, f))
    res.append((mid, prop, f, st)); print(res[-1], flush=True)
json.dump(res, open('/tmp/mut/results.json', 'w'), indent=1)
