---- MODULE T3 ----
EXTENDS KC, Json
K(n) == [i \in 1..n |-> (i * 13 + 5) % 256]
P(n) == [i \in 1..n |-> (i * 7) % 256]
C(n) == [i \in 1..n |-> 200 + i]
PW == <<112,97,115,115,119,111,114,100>>
SALT == <<65,84,72,69,78,65,46,77,73,84,46,69,68,85,114,97,101,98,117,114,110>>
K3 == S2KDES3(PW, SALT)
Lens == <<0, 1, 7, 8, 9, 15, 16, 17, 31, 32, 33, 64, 100>>
Out == [
  e19 |-> [i \in 1..Len(Lens) |-> [plain |-> P(Lens[i]), cipher |-> Encrypt8(19, K(16), 11, C(16), P(Lens[i])), ck |-> Checksum8(19, K(16), 6, P(Lens[i]))]],
  e20 |-> [i \in 1..Len(Lens) |-> [plain |-> P(Lens[i]), cipher |-> Encrypt8(20, K(32), 11, C(16), P(Lens[i])), ck |-> Checksum8(20, K(32), 6, P(Lens[i]))]],
  e23 |-> [i \in 1..Len(Lens) |-> [plain |-> P(Lens[i]), cipher |-> EncryptRC4(K(16), 9, C(8), P(Lens[i])), ck |-> ChecksumRC4(K(16), 17, P(Lens[i]))]],
  e16 |-> [i \in 1..Len(Lens) |-> [plain |-> P(Lens[i]), cipher |-> EncryptDES3(K3, 11, C(8), P(Lens[i])), ck |-> ChecksumDES3(K3, 6, P(Lens[i]))]],
  k3 |-> K3,
  s17 |-> S2K3962(PW, SALT, 1200, 16), s18 |-> S2K3962(PW, SALT, 5, 32),
  s19 |-> S2K8009(19, PW, SALT, 1000), s20 |-> S2K8009(20, PW, SALT, 1000),
  s23 |-> S2KRC4(<<112, 228, 115, 8364, 128512>>)
]
ASSUME JsonSerialize("out3.json", Out)
VARIABLE x
Init == x = 0
Next == UNCHANGED x
====
