//go:build verif

package main

import (
	"fmt"
	"runtime"
	"strings"
	"sync"
	"time"

	"github.com/jcmturner/gokrb5/v8/service"
	"github.com/jcmturner/gokrb5/v8/types"
)

// ---- cooperative scheduler ------------------------------------------------
// Each worker goroutine registers itself; at every yield point it parks until the scheduler grants it.
type sched struct {
	mu      sync.Mutex
	gids    map[int64]int      // goroutine id -> worker index
	parked  map[int]chan struct{}
	labels  map[int]string
	done    map[int]bool
	arrive  chan int
}

func goid() int64 {
	var buf [64]byte
	n := runtime.Stack(buf[:], false)
	var id int64
	fmt.Sscanf(strings.TrimPrefix(string(buf[:n]), "goroutine "), "%d", &id)
	return id
}

func (s *sched) yield(label string) {
	s.mu.Lock()
	w, ok := s.gids[goid()]
	if !ok { s.mu.Unlock(); return } // not a scheduled goroutine
	ch := make(chan struct{})
	s.parked[w] = ch
	s.labels[w] = label
	s.mu.Unlock()
	s.arrive <- w
	<-ch
}

type op func() string

// run executes ops under the given schedule prefix; at each choice point beyond the prefix picks the lowest enabled worker.
// returns the full schedule taken, the per-choice-point enabled sets and the results.
func run(ops []op, prefix []int) (taken []int, enabled [][]int, results []string, trace []string) {
	s := &sched{gids: map[int64]int{}, parked: map[int]chan struct{}{}, labels: map[int]string{}, done: map[int]bool{}, arrive: make(chan int)}
	service.VerifYield = s.yield
	defer func() { service.VerifYield = nil }()
	results = make([]string, len(ops))
	fin := make(chan int)
	for i := range ops {
		i := i
		ready := make(chan struct{})
		go func() {
			s.mu.Lock(); s.gids[goid()] = i; s.mu.Unlock()
			close(ready)
			s.yield("start")
			results[i] = ops[i]()
			s.mu.Lock(); s.done[i] = true; s.mu.Unlock()
			fin <- i
		}()
		<-ready
		<-s.arrive // worker i parked at "start"
	}
	running := 0
	for step := 0; ; step++ {
		// all live workers are parked here
		s.mu.Lock()
		var en []int
		for w := range s.parked { en = append(en, w) }
		s.mu.Unlock()
		if len(en) == 0 { break }
		sortInts(en)
		var pick int
		if step < len(prefix) { pick = prefix[step] } else { pick = en[0] }
		enabled = append(enabled, en)
		taken = append(taken, pick)
		s.mu.Lock()
		ch := s.parked[pick]
		lbl := s.labels[pick]
		delete(s.parked, pick)
		s.mu.Unlock()
		trace = append(trace, fmt.Sprintf("g%d:%s", pick, lbl))
		running = 1
		close(ch)
		// wait until the granted worker parks again or finishes
		select {
		case <-s.arrive:
		case <-fin:
		case <-time.After(5 * time.Second):
			panic("scheduler: worker blocked (yield inside a critical section?)")
		}
		running = 0
	}
	_ = running
	return
}

func sortInts(a []int) { for i := range a { for j := i + 1; j < len(a); j++ { if a[j] < a[i] { a[i], a[j] = a[j], a[i] } } } }

// explore all schedules by DFS over choice points
func explore(mk func() []op, visit func(taken []int, results []string, trace []string)) int {
	n := 0
	var stack [][]int
	stack = append(stack, nil)
	for len(stack) > 0 {
		prefix := stack[len(stack)-1]
		stack = stack[:len(stack)-1]
		taken, enabled, results, trace := run(mk(), prefix)
		n++
		visit(taken, results, trace)
		// branch on every choice point at or beyond the prefix
		for i := len(prefix); i < len(taken); i++ {
			for _, alt := range enabled[i] {
				if alt > taken[i] { // default picks lowest; alternatives are higher
					np := append(append([]int{}, taken[:i]...), alt)
					stack = append(stack, np)
				}
			}
		}
	}
	return n
}

func main() {
	cname := types.PrincipalName{NameType: 1, NameString: []string{"alice"}}
	sname := types.PrincipalName{NameType: 1, NameString: []string{"HTTP", "h"}}
	ct := time.Now().UTC().Truncate(time.Second)
	auth := types.Authenticator{CName: cname, CRealm: "R", CTime: ct, Cusec: 123}
	double, total := 0, 0
	var example []string
	for _, ng := range []int{2, 3} {
		double, total, example = 0, 0, nil
		t0 := time.Now()
		n := explore(func() []op {
			c := service.NewVerifCache()
			ops := make([]op, ng)
			for i := range ops { ops[i] = func() string { if c.IsReplay(sname, auth) { return "replay" }; return "fresh" } }
			return ops
		}, func(taken []int, results []string, trace []string) {
			total++
			f := 0
			for _, r := range results { if r == "fresh" { f++ } }
			if f > 1 { double++; if example == nil { example = trace } }
		})
		fmt.Printf("goroutines=%d schedules=%d double-accept=%d in %v\n  example: %v\n", ng, n, double, time.Since(t0), example)
	}
	// with a cleaner in between
	double, total, example = 0, 0, nil
	n := explore(func() []op {
		c := service.NewVerifCache()
		other := auth; other.Cusec = 999
		c.IsReplay(sname, other) // client entry exists, will be stale for Clear(0)
		return []op{
			func() string { if c.IsReplay(sname, auth) { return "replay" }; return "fresh" },
			func() string { c.ClearOldEntries(0); return "cleared" },
			func() string { time.Sleep(0); if c.IsReplay(sname, auth) { return "replay" }; return "fresh" },
		}
	}, func(taken []int, results []string, trace []string) {
		total++
		if results[0] == "fresh" && results[2] == "fresh" { double++; if example == nil { example = trace } }
	})
	fmt.Printf("2 verifiers + cleaner: schedules=%d double-accept=%d\n  example: %v\n", n, double, example)
}
