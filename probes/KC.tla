---- MODULE KC ----
EXTENDS RFC3962
\* ---------------- RFC 3962 string-to-key ----------------
S2K3962(pw, salt, iter, keylen) ==
  LET tkey == PBKDF2("HmacSHA1", pw, salt, iter, keylen) IN DK(tkey, <<107,101,114,98,101,114,111,115>>)
\* ---------------- RFC 8009 ----------------
HAlg(et) == IF et = 19 THEN "HmacSHA256" ELSE "HmacSHA384"
KDF(et, key, label, kbits) == Take(HMAC(HAlg(et), key, <<0,0,0,1>> \o label \o <<0>> \o BE32(kbits)), kbits \div 8)
Ke8(et, key, usage) == KDF(et, key, BE32(usage) \o <<170>>, IF et = 19 THEN 128 ELSE 256)
Ki8(et, key, usage) == KDF(et, key, BE32(usage) \o <<85>>,  IF et = 19 THEN 128 ELSE 192)
Kc8(et, key, usage) == KDF(et, key, BE32(usage) \o <<153>>, IF et = 19 THEN 128 ELSE 192)
MacLen8(et) == IF et = 19 THEN 16 ELSE 24
Encrypt8(et, key, usage, conf, plain) ==
  LET c == CTSEnc(Ke8(et, key, usage), conf \o plain) IN
  c \o Take(HMAC(HAlg(et), Ki8(et, key, usage), Zeros(16) \o c), MacLen8(et))
Checksum8(et, key, usage, data) == Take(HMAC(HAlg(et), Kc8(et, key, usage), data), MacLen8(et))
EName(et) == IF et = 19 THEN <<97,101,115,49,50,56,45,99,116,115,45,104,109,97,99,45,115,104,97,50,53,54,45,49,50,56>>
             ELSE <<97,101,115,50,53,54,45,99,116,115,45,104,109,97,99,45,115,104,97,51,56,52,45,49,57,50>>
S2K8009(et, pw, salt, iter) ==
  LET kl == IF et = 19 THEN 16 ELSE 32
      tkey == PBKDF2(HAlg(et), pw, EName(et) \o <<0>> \o salt, iter, kl)
  IN KDF(et, tkey, <<107,101,114,98,101,114,111,115>>, 8 * kl)
\* ---------------- RFC 4757 ----------------
LE32(u) == <<u % 256, (u \div 256) % 256, (u \div 65536) % 256, (u \div 16777216) % 256>>
MsgType(usage) == IF usage = 3 \/ usage = 9 THEN 8 ELSE IF usage = 23 THEN 13 ELSE usage
EncryptRC4(key, usage, conf, plain) ==
  LET k2 == HMAC("HmacMD5", key, LE32(MsgType(usage)))
      body == conf \o plain
      ck == HMAC("HmacMD5", k2, body)
      k3 == HMAC("HmacMD5", k2, ck)
  IN ck \o RC4(k3, body)
ChecksumRC4(key, usage, data) ==
  LET ksign == HMAC("HmacMD5", key, <<115,105,103,110,97,116,117,114,101,107,101,121,0>>)
      tmp == Hash("MD5", LE32(MsgType(usage)) \o data)
  IN HMAC("HmacMD5", ksign, tmp)
\* UTF-16LE of a sequence of code points
RECURSIVE U16(_)
U16(cps) == IF cps = <<>> THEN <<>> ELSE
  LET c == Head(cps) IN
  (IF c < 65536 THEN <<c % 256, c \div 256>>
   ELSE LET v == c - 65536 hi == 55296 + (v \div 1024) lo == 56320 + (v % 1024) IN <<hi % 256, hi \div 256, lo % 256, lo \div 256>>)
  \o U16(Tail(cps))
S2KRC4(cps) == Hash("MD4", U16(cps))
\* ---------------- DES3 (RFC 3961 6.3) ----------------
\* 7 bytes -> 8 bytes with odd parity: bytes 1..7 keep their top 7 bits, byte 8 collects the low bits
Parity(b7) == \* b7 in 0..127 (7 data bits) -> byte with odd parity in the low bit
  LET ones == (b7 % 2) + ((b7 \div 2) % 2) + ((b7 \div 4) % 2) + ((b7 \div 8) % 2) + ((b7 \div 16) % 2) + ((b7 \div 32) % 2) + ((b7 \div 64) % 2)
  IN b7 * 2 + (IF ones % 2 = 0 THEN 1 ELSE 0)
Stretch(b) == \* b: 7 bytes
  LET last == (b[1] % 2) * 1 + (b[2] % 2) * 2 + (b[3] % 2) * 4 + (b[4] % 2) * 8 + (b[5] % 2) * 16 + (b[6] % 2) * 32 + (b[7] % 2) * 64
  IN [i \in 1..8 |-> IF i <= 7 THEN Parity(b[i] \div 2) ELSE Parity(last)]
Weak == { <<1,1,1,1,1,1,1,1>>, <<254,254,254,254,254,254,254,254>>, <<224,224,224,224,241,241,241,241>>, <<31,31,31,31,14,14,14,14>>,
          <<1,31,1,31,1,14,1,14>>, <<31,1,31,1,14,1,14,1>>, <<1,224,1,224,1,241,1,241>>, <<224,1,224,1,241,1,241,1>>,
          <<1,254,1,254,1,254,1,254>>, <<254,1,254,1,254,1,254,1>>, <<31,224,31,224,14,241,14,241>>, <<224,31,224,31,241,14,241,14>>,
          <<31,254,31,254,14,254,14,254>>, <<254,31,254,31,254,14,254,14>>, <<224,254,224,254,241,254,241,254>>, <<254,224,254,224,254,241,254,241>> }
Fix(k) == IF k \in Weak THEN [k EXCEPT ![8] = IF k[8] >= 240 THEN k[8] - 240 ELSE IF (k[8] \div 16) = 0 THEN k[8] + 240 ELSE ((15 - (k[8] \div 16)) * 16) + (k[8] % 16)] ELSE k
R2K3(r) == Fix(Stretch(SubSeq(r, 1, 7))) \o Fix(Stretch(SubSeq(r, 8, 14))) \o Fix(Stretch(SubSeq(r, 15, 21)))
DR3(key, constant) ==
  LET c0 == IF Len(constant) = 8 THEN constant ELSE NFold(constant, 64)
      b1 == DES3CBCEnc(key, Zeros(8), c0) b2 == DES3CBCEnc(key, Zeros(8), b1) b3 == DES3CBCEnc(key, Zeros(8), b2)
  IN Take(b1 \o b2 \o b3, 21)
DK3(key, constant) == R2K3(DR3(key, constant))
Pad8(s) == s \o Zeros((8 - (Len(s) % 8)) % 8)
EncryptDES3(key, usage, conf, plain) ==
  LET body == Pad8(conf \o plain) IN
  DES3CBCEnc(DK3(key, BE32(usage) \o <<170>>), Zeros(8), body) \o HMAC("HmacSHA1", DK3(key, BE32(usage) \o <<85>>), body)
ChecksumDES3(key, usage, data) == HMAC("HmacSHA1", DK3(key, BE32(usage) \o <<153>>), data)
S2KDES3(pw, salt) == DK3(R2K3(NFold(pw \o salt, 168)), <<107,101,114,98,101,114,111,115>>)
====
