package main

import (
	"encoding/binary"
	"fmt"
	"io"
	"net"
	"sync"
	"time"

	"github.com/jcmturner/gofork/encoding/asn1"
	"github.com/jcmturner/gokrb5/v8/crypto"
	"github.com/jcmturner/gokrb5/v8/iana/errorcode"
	"github.com/jcmturner/gokrb5/v8/iana/flags"
	"github.com/jcmturner/gokrb5/v8/iana/keyusage"
	"github.com/jcmturner/gokrb5/v8/iana/msgtype"
	"github.com/jcmturner/gokrb5/v8/iana/patype"
	"github.com/jcmturner/gokrb5/v8/messages"
	"github.com/jcmturner/gokrb5/v8/types"
)

type princKey struct {
	etype int32
	key   []byte
	salt  string
}

type KDC struct {
	Realm      string
	Keys       map[string][]princKey // "name/comp@REALM" -> keys
	Preauth    bool
	Lifetime   time.Duration
	Renewable  time.Duration
	mu         sync.Mutex
	Log        []string
	udp        net.PacketConn
	tcp        net.Listener
}

func (k *KDC) logf(f string, a ...interface{}) { k.mu.Lock(); k.Log = append(k.Log, fmt.Sprintf(f, a...)); k.mu.Unlock() }

func (k *KDC) key(pn types.PrincipalName, etypes []int32) (types.EncryptionKey, *princKey, bool) {
	ks := k.Keys[pn.PrincipalNameString()+"@"+k.Realm]
	for _, et := range etypes {
		for i := range ks {
			if ks[i].etype == et {
				return types.EncryptionKey{KeyType: et, KeyValue: ks[i].key}, &ks[i], true
			}
		}
	}
	return types.EncryptionKey{}, nil, false
}

func (k *KDC) krbErr(code int32, cname types.PrincipalName, sname types.PrincipalName, edata []byte) []byte {
	e := messages.NewKRBError(sname, k.Realm, code, "")
	e.CName = cname
	e.CRealm = k.Realm
	e.EData = edata
	b, _ := e.Marshal()
	return b
}

func (k *KDC) issue(cname types.PrincipalName, crealm string, sname types.PrincipalName, body messages.KDCReqBody, replyKey types.EncryptionKey, usage uint32, isAS bool, authTime time.Time) ([]byte, error) {
	skey, _, ok := k.key(sname, []int32{18, 17, 19, 20, 23, 16})
	if !ok {
		return k.krbErr(errorcode.KDC_ERR_S_PRINCIPAL_UNKNOWN, cname, sname, nil), nil
	}
	et, _ := crypto.GetEtype(body.EType[0])
	sess, _ := types.GenerateEncryptionKey(et)
	now := time.Now().UTC().Truncate(time.Second)
	end := now.Add(k.Lifetime)
	fl := types.NewKrbFlags()
	var renew time.Time
	if k.Renewable > 0 && types.IsFlagSet(&body.KDCOptions, flags.Renewable) {
		types.SetFlag(&fl, flags.Renewable)
		renew = now.Add(k.Renewable)
	}
	if isAS { types.SetFlag(&fl, flags.Initial) }
	etp := messages.EncTicketPart{Flags: fl, Key: sess, CRealm: crealm, CName: cname, AuthTime: authTime, StartTime: now, EndTime: end, RenewTill: renew}
	eb, err := asn1.Marshal(etp)
	if err != nil { return nil, err }
	eb = addApp(eb, 3)
	ed, err := crypto.GetEncryptedData(eb, skey, keyusage.KDC_REP_TICKET, 1)
	if err != nil { return nil, err }
	tkt := messages.Ticket{TktVNO: 5, Realm: k.Realm, SName: sname, EncPart: ed}
	enc := messages.EncKDCRepPart{Key: sess, LastReqs: []messages.LastReq{{LRType: 0, LRValue: now}}, Nonce: body.Nonce, Flags: fl, AuthTime: authTime, StartTime: now, EndTime: end, RenewTill: renew, SRealm: k.Realm, SName: sname}
	encb, err := enc.Marshal()
	if err != nil { return nil, err }
	red, err := crypto.GetEncryptedData(encb, replyKey, usage, 1)
	if err != nil { return nil, err }
	f := messages.KDCRepFields{PVNO: 5, CRealm: crealm, CName: cname, Ticket: tkt, EncPart: red}
	k.logf("issued %s for %s etype %d end %v", sname.PrincipalNameString(), cname.PrincipalNameString(), sess.KeyType, end)
	if isAS {
		f.MsgType = msgtype.KRB_AS_REP
		r := messages.ASRep{KDCRepFields: f}
		return r.Marshal()
	}
	f.MsgType = msgtype.KRB_TGS_REP
	r := messages.TGSRep{KDCRepFields: f}
	return r.Marshal()
}

func addApp(b []byte, tag int) []byte {
	r := asn1.RawValue{Class: asn1.ClassApplication, IsCompound: true, Tag: tag, Bytes: b}
	ab, _ := asn1.Marshal(r)
	return ab
}

func (k *KDC) handle(req []byte) []byte {
	var as messages.ASReq
	if err := as.Unmarshal(req); err == nil {
		k.logf("AS-REQ cname=%v sname=%v etypes=%v opts=%x till=%v rtime=%v padata=%d", as.ReqBody.CName.NameString, as.ReqBody.SName.NameString, as.ReqBody.EType, as.ReqBody.KDCOptions.Bytes, as.ReqBody.Till, as.ReqBody.RTime, len(as.PAData))
		ckey, pk, ok := k.key(as.ReqBody.CName, as.ReqBody.EType)
		if !ok {
			return k.krbErr(errorcode.KDC_ERR_C_PRINCIPAL_UNKNOWN, as.ReqBody.CName, as.ReqBody.SName, nil)
		}
		if k.Preauth {
			var ts *types.PAData
			for i := range as.PAData { if as.PAData[i].PADataType == patype.PA_ENC_TIMESTAMP { ts = &as.PAData[i] } }
			if ts == nil {
				ei2, _ := asn1.Marshal(types.ETypeInfo2{{EType: pk.etype, Salt: pk.salt}})
				pas, _ := asn1.Marshal(types.PADataSequence{{PADataType: patype.PA_ETYPE_INFO2, PADataValue: ei2}, {PADataType: patype.PA_ENC_TIMESTAMP}})
				return k.krbErr(errorcode.KDC_ERR_PREAUTH_REQUIRED, as.ReqBody.CName, as.ReqBody.SName, pas)
			}
			var ed types.EncryptedData
			if err := ed.Unmarshal(ts.PADataValue); err != nil { return k.krbErr(errorcode.KDC_ERR_PREAUTH_FAILED, as.ReqBody.CName, as.ReqBody.SName, nil) }
			pt, err := crypto.DecryptEncPart(ed, ckey, keyusage.AS_REQ_PA_ENC_TIMESTAMP)
			if err != nil { k.logf("preauth decrypt failed: %v", err); return k.krbErr(errorcode.KDC_ERR_PREAUTH_FAILED, as.ReqBody.CName, as.ReqBody.SName, nil) }
			var pats types.PAEncTSEnc
			if err := pats.Unmarshal(pt); err != nil { return k.krbErr(errorcode.KDC_ERR_PREAUTH_FAILED, as.ReqBody.CName, as.ReqBody.SName, nil) }
			k.logf("preauth ok ts=%v", pats.PATimestamp)
		}
		b, err := k.issue(as.ReqBody.CName, k.Realm, as.ReqBody.SName, as.ReqBody, ckey, keyusage.AS_REP_ENCPART, true, time.Now().UTC().Truncate(time.Second))
		if err != nil { k.logf("issue error %v", err); return nil }
		return b
	}
	var tgs messages.TGSReq
	if err := tgs.Unmarshal(req); err == nil {
		var ap messages.APReq
		found := false
		for _, pa := range tgs.PAData { if pa.PADataType == patype.PA_TGS_REQ { if err := ap.Unmarshal(pa.PADataValue); err == nil { found = true } } }
		if !found { return k.krbErr(errorcode.KDC_ERR_PADATA_TYPE_NOSUPP, types.PrincipalName{}, tgs.ReqBody.SName, nil) }
		tkey, _, ok := k.key(ap.Ticket.SName, []int32{ap.Ticket.EncPart.EType})
		if !ok { return k.krbErr(errorcode.KRB_AP_ERR_NOKEY, types.PrincipalName{}, tgs.ReqBody.SName, nil) }
		if err := ap.Ticket.Decrypt(tkey); err != nil { return k.krbErr(errorcode.KRB_AP_ERR_BAD_INTEGRITY, types.PrincipalName{}, tgs.ReqBody.SName, nil) }
		if time.Now().UTC().After(ap.Ticket.DecryptedEncPart.EndTime) { return k.krbErr(errorcode.KRB_AP_ERR_TKT_EXPIRED, types.PrincipalName{}, tgs.ReqBody.SName, nil) }
		if err := ap.DecryptAuthenticator(ap.Ticket.DecryptedEncPart.Key); err != nil { k.logf("authenticator decrypt failed %v", err); return k.krbErr(errorcode.KRB_AP_ERR_BAD_INTEGRITY, types.PrincipalName{}, tgs.ReqBody.SName, nil) }
		// checksum over req-body
		bb, _ := tgs.ReqBody.Marshal()
		et, _ := crypto.GetEtype(ap.Ticket.DecryptedEncPart.Key.KeyType)
		if !et.VerifyChecksum(ap.Ticket.DecryptedEncPart.Key.KeyValue, bb, ap.Authenticator.Cksum.Checksum, keyusage.TGS_REQ_PA_TGS_REQ_AP_REQ_AUTHENTICATOR_CHKSUM) {
			k.logf("req-body checksum mismatch")
			return k.krbErr(errorcode.KRB_AP_ERR_MODIFIED, types.PrincipalName{}, tgs.ReqBody.SName, nil)
		}
		k.logf("TGS-REQ sname=%v etypes=%v opts=%x renew=%v", tgs.ReqBody.SName.NameString, tgs.ReqBody.EType, tgs.ReqBody.KDCOptions.Bytes, types.IsFlagSet(&tgs.ReqBody.KDCOptions, flags.Renew))
		b, err := k.issue(ap.Ticket.DecryptedEncPart.CName, ap.Ticket.DecryptedEncPart.CRealm, tgs.ReqBody.SName, tgs.ReqBody, ap.Ticket.DecryptedEncPart.Key, keyusage.TGS_REP_ENCPART_SESSION_KEY, false, ap.Ticket.DecryptedEncPart.AuthTime)
		if err != nil { k.logf("issue error %v", err); return nil }
		return b
	}
	k.logf("unparseable request %d bytes", len(req))
	return nil
}

func (k *KDC) Start() (string, error) {
	l, err := net.Listen("tcp", "127.0.0.1:0")
	if err != nil { return "", err }
	addr := l.Addr().String()
	u, err := net.ListenPacket("udp", addr)
	if err != nil { return "", err }
	k.tcp, k.udp = l, u
	go func() {
		buf := make([]byte, 65536)
		for {
			n, a, err := u.ReadFrom(buf)
			if err != nil { return }
			req := append([]byte{}, buf[:n]...)
			go func() { if r := k.handle(req); r != nil { u.WriteTo(r, a) } }()
		}
	}()
	go func() {
		for {
			c, err := l.Accept()
			if err != nil { return }
			go func() {
				defer c.Close()
				h := make([]byte, 4)
				if _, err := io.ReadFull(c, h); err != nil { return }
				req := make([]byte, binary.BigEndian.Uint32(h))
				if _, err := io.ReadFull(c, req); err != nil { return }
				r := k.handle(req)
				if r == nil { return }
				binary.BigEndian.PutUint32(h, uint32(len(r)))
				c.Write(append(h, r...))
			}()
		}
	}()
	return addr, nil
}
