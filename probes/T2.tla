---- MODULE T2 ----
EXTENDS RFC3962, Json
K128 == [i \in 1..16 |-> i]
Conf == [i \in 1..16 |-> 200 + i]
Out == [n \in 1..40 |-> [plain |-> [i \in 1..(n-1) |-> (i * 7) % 256], cipher |-> Encrypt(K128, 11, Conf, [i \in 1..(n-1) |-> (i * 7) % 256]), ck |-> Checksum(K128, 6, [i \in 1..(n-1) |-> (i * 7) % 256])]]
ASSUME JsonSerialize("out.json", Out)
VARIABLE x
Init == x = 0
Next == UNCHANGED x
====
