package main

import (
	"bytes"
	"encoding/json"
	"fmt"
	"os"

	"github.com/jcmturner/gokrb5/v8/crypto"
	"github.com/jcmturner/gokrb5/v8/types"
)

type rec struct {
	Plain, Cipher, Ck []int
}
type out struct {
	E19, E20, E23, E16      []rec
	K3                      []int
	S17, S18, S19, S20, S23 []int
}

func tb(a []int) []byte { b := make([]byte, len(a)); for i, v := range a { b[i] = byte(v) }; return b }
func K(n int) []byte { b := make([]byte, n); for i := range b { b[i] = byte(((i+1)*13 + 5) % 256) }; return b }

func chk(name string, et int32, key []byte, rs []rec, usage uint32, ckusage uint32) {
	k := types.EncryptionKey{KeyType: et, KeyValue: key}
	e, _ := crypto.GetEtype(et)
	bad := 0
	for i, r := range rs {
		pt, err := crypto.DecryptMessage(tb(r.Cipher), k, usage)
		want := tb(r.Plain)
		if et == 16 { for (8+len(want))%8 != 0 { want = append(want, 0) } }
		if err != nil || !bytes.Equal(pt, want) { bad++; fmt.Println(name, "enc mismatch", i, err, len(pt), len(want)) }
		ck, _ := e.GetChecksumHash(key, tb(r.Plain), ckusage)
		if !bytes.Equal(ck, tb(r.Ck)) { bad++; fmt.Println(name, "ck mismatch", i) }
	}
	fmt.Println(name, "records", len(rs), "bad", bad)
}

func main() {
	raw, _ := os.ReadFile("/tmp/probe/c/out3.json")
	var o out
	if err := json.Unmarshal(raw, &o); err != nil { panic(err) }
	chk("aes128-sha256", 19, K(16), o.E19, 11, 6)
	chk("aes256-sha384", 20, K(32), o.E20, 11, 6)
	chk("rc4", 23, K(16), o.E23, 9, 17)
	chk("des3", 16, tb(o.K3), o.E16, 11, 6)
	s2k := func(et int32, pw, salt, p string, want []int) {
		e, _ := crypto.GetEtype(et)
		k, err := e.StringToKey(pw, salt, p)
		fmt.Println("s2k", et, bytes.Equal(k, tb(want)), err)
	}
	s2k(16, "password", "ATHENA.MIT.EDUraeburn", "", o.K3)
	s2k(17, "password", "ATHENA.MIT.EDUraeburn", "000004b0", o.S17)
	s2k(18, "password", "ATHENA.MIT.EDUraeburn", "00000005", o.S18)
	s2k(19, "password", "ATHENA.MIT.EDUraeburn", "000003e8", o.S19)
	s2k(20, "password", "ATHENA.MIT.EDUraeburn", "000003e8", o.S20)
	s2k(23, "pä"+"s€😀", "", "", o.S23)
	fmt.Printf("des3 s2k spec = %x (RFC 3961 A.4: 850bb51358548cd05e86768c313e3bfef7511937dcf72c3e)\n", tb(o.K3))
}
