package main

import (
	"fmt"
	"time"

	"github.com/jcmturner/gokrb5/v8/client"
	"github.com/jcmturner/gokrb5/v8/config"
	"github.com/jcmturner/gokrb5/v8/crypto"
	"github.com/jcmturner/gokrb5/v8/keytab"
	"github.com/jcmturner/gokrb5/v8/messages"
	"github.com/jcmturner/gokrb5/v8/service"
	"github.com/jcmturner/gokrb5/v8/types"
)

func s2k(pw, princ, realm string, et int32) princKey {
	pn, _ := types.ParseSPNString(princ)
	k, _, err := crypto.GetKeyFromPassword(pw, pn, realm, et, types.PADataSequence{})
	if err != nil { panic(err) }
	return princKey{etype: et, key: k.KeyValue, salt: pn.GetSalt(realm)}
}

func main() {
	realm := "TEST.VERIF"
	k := &KDC{Realm: realm, Keys: map[string][]princKey{}, Preauth: true, Lifetime: 3 * time.Second, Renewable: 20 * time.Second}
	for _, et := range []int32{18, 17, 23} {
		k.Keys["alice@"+realm] = append(k.Keys["alice@"+realm], s2k("alicepw", "alice", realm, et))
		k.Keys["krbtgt/"+realm+"@"+realm] = append(k.Keys["krbtgt/"+realm+"@"+realm], s2k("tgspw", "krbtgt/"+realm, realm, et))
		k.Keys["HTTP/host.test.verif@"+realm] = append(k.Keys["HTTP/host.test.verif@"+realm], s2k("svcpw", "HTTP/host.test.verif", realm, et))
	}
	addr, err := k.Start()
	if err != nil { panic(err) }
	conf := fmt.Sprintf("[libdefaults]\n default_realm = %s\n udp_preference_limit = 1465\n renew_lifetime = 30\n ticket_lifetime = 10\n[realms]\n %s = {\n  kdc = %s\n }\n[domain_realm]\n .test.verif = %s\n", realm, realm, addr, realm)
	cfg, err := config.NewFromString(conf)
	if err != nil { panic(err) }
	cl := client.NewWithPassword("alice", realm, "alicepw", cfg, client.DisablePAFXFAST(true))
	t0 := time.Now()
	if err := cl.Login(); err != nil { fmt.Println("LOGIN ERR", err) } else { fmt.Println("login ok", time.Since(t0)) }
	tkt, key, err := cl.GetServiceTicket("HTTP/host.test.verif")
	fmt.Println("service ticket:", err, tkt.SName.NameString, key.KeyType)
	// service side
	kt := keytab.New()
	kt.AddEntry("HTTP/host.test.verif", realm, "svcpw", time.Now(), 1, 18)
	auth, _ := types.NewAuthenticator(realm, cl.Credentials.CName())
	ap, _ := messages.NewAPReq(tkt, key, auth)
	ok, creds, err := service.VerifyAPREQ(&ap, service.NewSettings(kt))
	fmt.Println("service verify:", ok, err, creds.UserName(), creds.Domain())
	// cached?
	_, _, c := cl.GetCachedTicket("HTTP/host.test.verif")
	fmt.Println("cached now:", c)
	time.Sleep(3500 * time.Millisecond)
	_, _, c = cl.GetCachedTicket("HTTP/host.test.verif")
	fmt.Println("cached after expiry (renew path):", c)
	tkt2, _, err := cl.GetServiceTicket("HTTP/host.test.verif")
	fmt.Println("service ticket after expiry:", err, tkt2.SName.NameString)
	cl.Destroy()
	k.mu.Lock()
	for _, l := range k.Log { fmt.Println("  KDC:", l) }
	k.mu.Unlock()
}
