#!/usr/bin/env python3
# scratch: which candidate mutants compile and keep the pinned suite green?
import subprocess, os, sys, shutil, json
ROOT = '/tmp/mut/v8'
ORIG = '/repo/v8'
ENV = dict(os.environ, GOFLAGS='-mod=mod', GOPROXY='off', GOSUMDB='off', GOTOOLCHAIN='local')

M = [
 ("M01c","C01","messages/Ticket.go","if t.DecryptedEncPart.StartTime.Sub(time) > d || types.IsFlagSet(&t.DecryptedEncPart.Flags, flags.Invalid) {","if t.DecryptedEncPart.StartTime.Sub(time) > d || (false && types.IsFlagSet(&t.DecryptedEncPart.Flags, flags.Invalid)) {"),
 ("M09g","C09","messages/KDCRep.go","if t.Sub(k.DecryptedEncPart.AuthTime) > cfg.LibDefaults.Clockskew || k.DecryptedEncPart.AuthTime.Sub(t) > cfg.LibDefaults.Clockskew {","if t.Sub(k.DecryptedEncPart.AuthTime) > 1000*cfg.LibDefaults.Clockskew || k.DecryptedEncPart.AuthTime.Sub(t) > 1000*cfg.LibDefaults.Clockskew {"),
 ("M12a","C12","client/network.go","if e, ok := errudp.(messages.KRBError); ok && e.ErrorCode != errorcode.KRB_ERR_RESPONSE_TOO_BIG {","if e, ok := errudp.(messages.KRBError); ok && e.ErrorCode != errorcode.KRB_ERR_GENERIC {"),
 ("M06d","C06","crypto/rfc3962/encryption.go","if !e.VerifyIntegrity(key, ciphertext, b, usage) {","if false && !e.VerifyIntegrity(key, ciphertext, b, usage) {"),
 ("M06e","C06","crypto/rfc8009/encryption.go","return hmac.Equal(h, expectedMAC)","return hmac.Equal(h[:8], expectedMAC[:8])"),
 ("M09i","C09","messages/KDCRep.go","if k.DecryptedEncPart.SRealm != tgsReq.ReqBody.Realm {","if false {"),
 ("M09j","C09","client/network.go","if err := KRBErr.Unmarshal(b); err == nil {\n\t\treturn b, KRBErr\n\t}","if err := KRBErr.Unmarshal(b); err == nil && KRBErr.ErrorCode == 0 {\n\t\treturn b, KRBErr\n\t}"),
 ("M10h","C10","messages/KDCReq.go","if c.LibDefaults.RenewLifetime > time.Duration(0) {","if c.LibDefaults.RenewLifetime > time.Duration(1000)*time.Hour {"),
 ("M10i","C10","client/cache.go","} else if time.Now().UTC().Before(e.RenewTill) {","} else if false {"),
 ("M11a","C11","client/cache.go","func (c *Cache) getEntry(spn string) (CacheEntry, bool) {\n\tc.mux.RLock()\n\tdefer c.mux.RUnlock()","func (c *Cache) getEntry(spn string) (CacheEntry, bool) {"),
 ("M11b","C11","client/session.go","func (s *session) tgtDetails() (string, messages.Ticket, types.EncryptionKey) {\n\ts.mux.RLock()\n\tdefer s.mux.RUnlock()","func (s *session) tgtDetails() (string, messages.Ticket, types.EncryptionKey) {"),
 ("M11c","C11","client/session.go","s.cancel = make(chan bool, 1)","s.cancel = make(chan bool)"),
 ("M13f","C13","spnego/spnego.go","return asn1tools.AddASNAppTag(b, 0), nil\n\t}\n\tif s.Resp {","return asn1tools.AddASNAppTag(b, 1), nil\n\t}\n\tif s.Resp {"),
 ("M13g","C13","messages/Ticket.go","btkts = append([]byte{byte(32 + asn1.TagSequence)}, btkts...)","btkts = append([]byte{byte(32 + asn1.TagSet)}, btkts...)"),
 ("M14f","C14","keytab/keytab.go","if l < 0 {\n\t\t\t//Zero padded so skip over\n\t\t\tl = l * -1\n\t\t\tn = n + int(l)","if l < 0 {\n\t\t\t//Zero padded so skip over\n\t\t\tl = l * -1\n\t\t\tn = n + int(l) + 4"),
 ("M16g","C16","config/krb5conf.go","if r, ok := c.DomainRealm[domainName]; ok {\n\t\treturn r\n\t}","if r, ok := c.DomainRealm[\".\"+domainName]; ok {\n\t\treturn r\n\t}"),
 ("M17e","C17","gssapi/wrapToken.go","binary.BigEndian.PutUint16(bytes[6:8], wt.RRC)","binary.BigEndian.PutUint16(bytes[6:8], wt.EC)"),
 ("M17f","C17","gssapi/MICToken.go","if err := token.SetChecksum(key, keyusage.GSSAPI_INITIATOR_SIGN); err != nil {","if err := token.SetChecksum(key, keyusage.GSSAPI_ACCEPTOR_SIGN); err != nil {"),
 ("M18c","C18","spnego/http.go","e.reqTarget.Header.Del(HTTPHeaderAuthRequest)","//e.reqTarget.Header.Del(HTTPHeaderAuthRequest)"),
 ("M19f","C19","pac/pac_type.go","if pac.KerbValidationInfo != nil {\n\t\t\t\t//Must ignore subsequent buffers of this type\n\t\t\t\tcontinue\n\t\t\t}","if false {\n\t\t\t\t//Must ignore subsequent buffers of this type\n\t\t\t\tcontinue\n\t\t\t}"),
 ("M20d","C20","credentials/credentials.go","Password:      c.HasPassword(),\n\t\tValidUntil:    c.validUntil,","Password:      c.HasPassword(),\n\t\tDisplayName:   c.password,\n\t\tValidUntil:    c.validUntil,"),
]

def run(cmd, cwd):
    return subprocess.run(cmd, cwd=cwd, env=ENV, shell=True, capture_output=True, text=True)

res = []
only = set(sys.argv[1:])
for mid, prop, f, old, new in M:
    if only and mid not in only: continue
    src = open(os.path.join(ORIG, f)).read()
    if src.count(old) != 1:
        res.append((mid, prop, f, "NOMATCH(%d)" % src.count(old))); print(res[-1], flush=True); continue
    open(os.path.join(ROOT, f), 'w').write(src.replace(old, new))
    b = run("go build ./... ", ROOT)
    if b.returncode != 0:
        st = "COMPILE-FAIL"
    else:
        t = run("go test -vet=off -count=1 ./... 2>&1 | grep -c '^FAIL\\|^--- FAIL'", ROOT)
        st = "SURVIVES" if t.stdout.strip() == "0" else "KILLED-BY-SUITE"
    shutil.copy(os.path.join(ORIG, f), os.path.join(ROOT, f))
    res.append((mid, prop, f, st)); print(res[-1], flush=True)
json.dump(res, open('/tmp/mut/results2.json', 'w'), indent=1)
